(* Proofs/PipeStrictReturn.v — the call as repaired by D24: handlePipelineErr decides the
   outcome (step_main_return: st_main becomes Some r and the pipeline's context is cancelled),
   then drains every error channel until it is closed, and only then returns to the caller.
   In the LTS that moment is: the outcome is decided, the source is done and every stage has
   closed.  At that moment nothing of the call is left: the state is quiescent. *)
From Coq Require Import List Arith.
From GT Require Import Conc.Pipeline Proofs.PipeFinite Proofs.PipeNoLeak Proofs.PipeProgress.
Import ListNotations.

Definition drained (s : state) : Prop :=
  st_main s <> None /\ st_src s = SDone /\ forall t, In t (st_stages s) -> s_closed t = true.

Theorem drained_is_quiescent : forall p s, reach p s -> drained s -> quiescent s.
Proof.
  intros p s Hr (Hm & Hsrc & Hcl). unfold quiescent. split; [exact Hsrc|]. split.
  - intros t Ht. split; [|exact (Hcl t Ht)]. exact (reach_closed p s t Hr Ht (Hcl t Ht)).
  - exact (proj2 (reach_main p s Hr Hm)).
Qed.

Lemma quiescent_drained : forall s, st_main s <> None -> quiescent s -> drained s.
Proof.
  intros s Hm (Hsrc & Hst & _). split; [exact Hm|]. split; [exact Hsrc|].
  intros t Ht. exact (proj2 (Hst t Ht)).
Qed.

(* the drain ends: every maximal run of a safe and live pipeline reaches a drained state, within
   the bound of runs_are_finite; so the repaired call returns, and when it does nothing is left *)
Theorem drain_terminates : forall p s l,
  safe_params p -> live_params p -> reach p s -> path p s l -> (forall s', ~ step p (last l s) s') ->
  List.length l <= measure p s /\ drained (last l s) /\ quiescent (last l s).
Proof.
  intros p s l Hsafe Hlive Hr Hpath Hstuck.
  destruct (every_maximal_run_returns p s l Hlive Hr Hpath Hstuck) as [Hlen Hret].
  pose proof (path_reach p s l Hpath Hr) as Hr'.
  pose proof (stuck_after_return_is_quiescent p (last l s) Hsafe Hr' Hret Hstuck) as Hq.
  split; [exact Hlen|]. split; [apply quiescent_drained; assumption|exact Hq].
Qed.

Print Assumptions drained_is_quiescent.
Print Assumptions drain_terminates.
