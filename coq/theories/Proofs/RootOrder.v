(* Proofs/RootOrder.v — C10, the SEQUENTIAL justification: the per-root operations commute, so
   any completion order of the roots gives the same final result as the sequential order.
   (The concurrent side — every schedule handles every root exactly once, blocks are contiguous —
   is in Proofs/Pipe*.v.)

   1. VERIFY: the verdict (nil / not nil) does not depend on the order of the roots; a returned
      error is the exact report of SOME differing root of the forest, and every differing root's
      report is the one returned in some order.  What is FALSE: that the returned error itself is
      the same in every order ([verifier_error_depends_on_order]).
   2. MKDIR: under the success hypotheses of [mkdir_exact] every order of the roots succeeds
      and the resulting file systems are equal as finite maps (same lookups, same keys; as
      association lists they are permutations of each other).  Creating the roots one at a
      time, each step appends that root's own entries only, and the keys of two different
      roots are disjoint.  What is FALSE: that the final file system is order-independent
      when mkdir fails inside [make_roots] ([mkdir_failure_depends_on_order]); the EExistPath
      verdict, taken before anything is created, IS order-independent ([exists_root_perm]).
   3. WALK / TEXT: the visits (the text) are the concatenation of the per-root blocks in the
      order of the roots, so any order shows the same multiset of intact per-root blocks.
   4. [root_order_irrelevant] packages 1-3. *)
From Coq Require Import List Ascii Arith Bool Lia Permutation.
From GT Require Import Base.GoStr Tree.Tree Tree.Grower Out.Spreader Out.Walker Api.Simple
  Fs.FsModel Fs.Mkdir Fs.Verify Spec.Spec
  Proofs.TreeInd Proofs.GrowRender Proofs.BuildTrie Proofs.Paths Proofs.Programmable Proofs.Walk Proofs.FsBasic
  Proofs.MkdirExact Proofs.VerifyExact.
Import ListNotations.

(* ================= 1. VERIFY ================= *)

(* the verdict is the same in every order *)
Theorem verifier_ok_perm strict target f gs gs' :
  Permutation gs gs' ->
  (verifier strict target f gs = Ok tt <-> verifier strict target f gs' = Ok tt).
Proof.
  intros HP. rewrite !verifier_ok_iff. split; intros H g Hg; apply H.
  - exact (Permutation_in g (Permutation_sym HP) Hg).
  - exact (Permutation_in g HP Hg).
Qed.

(* in words of the file system: nil in some order iff every root matches *)
Corollary verifier_ok_perm_matches strict target f gs gs' :
  Permutation gs gs' ->
  (verifier strict target f gs' = Ok tt <-> forall g, In g gs -> root_matches strict target f g).
Proof.
  intros HP. rewrite <- (verifier_ok_perm strict target f gs gs' HP). apply verifier_nil_iff.
Qed.

(* a verify error returned in ANY order is the exact report of some root of the forest *)
Theorem verifier_fail_perm strict target f gs gs' e m :
  Permutation gs gs' -> verifier strict target f gs' = Err (EVerify e m) ->
  exists g, In g gs /\ verify_root strict target f g = VFail e m.
Proof.
  intros HP H. apply verifier_fail_iff in H as [gs1 [g [gs2 [E [_ Hv]]]]].
  exists g. split; [|exact Hv]. apply (Permutation_in g (Permutation_sym HP)).
  rewrite E. apply in_or_app. right. left. reflexivity.
Qed.

Theorem verifier_os_perm strict target f gs gs' :
  Permutation gs gs' -> verifier strict target f gs' = Err EOs ->
  exists g, In g gs /\ verify_root strict target f g = VErr.
Proof.
  intros HP H. apply verifier_os_iff in H as [gs1 [g [gs2 [E [_ Hv]]]]].
  exists g. split; [|exact Hv]. apply (Permutation_in g (Permutation_sym HP)).
  rewrite E. apply in_or_app. right. left. reflexivity.
Qed.

(* what the verifier returns for the report of one root *)
Definition report_of (v : vres) : res unit :=
  match v with VPass => Ok tt | VFail e m => Err (EVerify e m) | VErr => Err EOs end.

(* whatever the order, the result is the report of one root of the forest (or nil) *)
Theorem verifier_perm_report strict target f gs gs' :
  Permutation gs gs' ->
  verifier strict target f gs' = Ok tt \/
  exists g, In g gs /\ verify_root strict target f g <> VPass /\
            verifier strict target f gs' = report_of (verify_root strict target f g).
Proof.
  intros HP. destruct (verifier_first strict target f gs') as [H|[gs1 [g [gs2 [E [_ [Hn Hv]]]]]]]; [left; exact H|right].
  exists g. split; [|split; [exact Hn|exact Hv]]. apply (Permutation_in g (Permutation_sym HP)).
  rewrite E. apply in_or_app. right. left. reflexivity.
Qed.

(* conversely: every root that differs is the one reported in SOME order (put it first) *)
Theorem verifier_any_report strict target f gs g :
  In g gs -> verify_root strict target f g <> VPass ->
  exists gs', Permutation gs gs' /\
    verifier strict target f gs' = report_of (verify_root strict target f g).
Proof.
  intros Hg Hn. destruct (in_split g gs Hg) as [l1 [l2 E]]. exists (g :: l1 ++ l2). split.
  - rewrite E. apply Permutation_sym. apply Permutation_middle.
  - cbn [verifier]. destruct (verify_root strict target f g); [congruence|reflexivity|reflexivity].
Qed.

Corollary verifier_any_fail strict target f gs g e m :
  In g gs -> verify_root strict target f g = VFail e m ->
  exists gs', Permutation gs gs' /\ verifier strict target f gs' = Err (EVerify e m).
Proof.
  intros Hg Hv. destruct (verifier_any_report strict target f gs g Hg) as [gs' [HP H]]; [congruence|].
  exists gs'. split; [exact HP|]. rewrite H, Hv. reflexivity.
Qed.

Corollary verifier_any_os strict target f gs g :
  In g gs -> verify_root strict target f g = VErr ->
  exists gs', Permutation gs gs' /\ verifier strict target f gs' = Err EOs.
Proof.
  intros Hg Hv. destruct (verifier_any_report strict target f gs g Hg) as [gs' [HP H]]; [congruence|].
  exists gs'. split; [exact HP|]. rewrite H, Hv. reflexivity.
Qed.

(* when at most one root differs the whole result is order-independent *)
Theorem verifier_perm_one_differs strict target f gs gs' :
  Permutation gs gs' ->
  (forall g g', In g gs -> In g' gs ->
     verify_root strict target f g <> VPass -> verify_root strict target f g' <> VPass ->
     verify_root strict target f g = verify_root strict target f g') ->
  verifier strict target f gs' = verifier strict target f gs.
Proof.
  intros HP Hone.
  destruct (verifier_perm_report strict target f gs gs' HP) as [H|[g [Hg [Hn Hv]]]].
  - rewrite H. symmetry. apply (verifier_ok_perm strict target f gs gs' HP). exact H.
  - destruct (verifier_perm_report strict target f gs gs (Permutation_refl gs)) as [H|[g2 [Hg2 [Hn2 Hv2]]]].
    + exfalso. apply Hn. apply (proj1 (verifier_ok_iff strict target f gs) H). exact Hg.
    + rewrite Hv, Hv2. f_equal. apply Hone; assumption.
Qed.

(* REFUTATION of the naive statement "verifier gs' = verifier gs": with two differing roots
   the error returned is that of the first one in the order used.  Roots "a" and "b", empty
   file system: [a; b] reports a missing, [b; a] reports b missing. *)
Definition ro_s (l : list nat) : str := map ch l.
Definition ro_ga : gtree := grow_root default_bfmt (T (ro_s [97]) []).
Definition ro_gb : gtree := grow_root default_bfmt (T (ro_s [98]) []).

Example verifier_error_depends_on_order :
  Permutation [ro_ga; ro_gb] [ro_gb; ro_ga] /\
  verifier true [c_dot] [] [ro_ga; ro_gb] = Err (EVerify [] [ro_s [97]]) /\
  verifier true [c_dot] [] [ro_gb; ro_ga] = Err (EVerify [] [ro_s [98]]) /\
  verifier true [c_dot] [] [ro_ga; ro_gb] <> verifier true [c_dot] [] [ro_gb; ro_ga].
Proof.
  split; [apply perm_swap|]. split; [vm_compute; reflexivity|]. split; [vm_compute; reflexivity|].
  vm_compute. intros X. inversion X.
Qed.

(* ================= 2. MKDIR ================= *)

(* ---- association lists with distinct keys: a permutation is the same finite map ---- *)
Lemma lookup_perm p (A A' : fsmap) :
  Permutation A A' -> NoDup (map fst A) -> lookup p A = lookup p A'.
Proof.
  induction 1 as [|[q k] l l' HP IH|[q1 k1] [q2 k2] l|l1 l2 l3 HP1 IH1 HP2 IH2]; intros Hnd.
  - reflexivity.
  - cbn [map fst] in Hnd. inversion Hnd as [|? ? _ Hnd']; subst. cbn [lookup].
    destruct (str_eqb p q); [reflexivity|apply IH; exact Hnd'].
  - cbn [map fst] in Hnd. inversion Hnd as [|? ? Hnot _]; subst. cbn [lookup].
    destruct (str_eqb p q1) eqn:E1; destruct (str_eqb p q2) eqn:E2; try reflexivity.
    apply str_eqb_eq in E1. apply str_eqb_eq in E2. subst. exfalso. apply Hnot. left. reflexivity.
  - rewrite IH1 by exact Hnd. apply IH2.
    apply (Permutation_NoDup (Permutation_map fst HP1)). exact Hnd.
Qed.

Lemma lookup_app_perm p (f A A' : fsmap) :
  Permutation A A' -> NoDup (map fst A) -> lookup p (f ++ A) = lookup p (f ++ A').
Proof. intros HP Hnd. rewrite !lookup_app, (lookup_perm p A A' HP Hnd). reflexivity. Qed.

(* ---- the hypotheses of the exact theorems are invariant under permutation ---- *)
Lemma Forall_perm {A} (P : A -> Prop) l l' : Permutation l l' -> Forall P l -> Forall P l'.
Proof.
  intros HP H. apply Forall_forall. intros x Hx. rewrite Forall_forall in H. apply H.
  exact (Permutation_in x (Permutation_sym HP) Hx).
Qed.

Lemma all_nodup_forall l : all_nodup l <-> forall t, In t l -> nodup_sib t.
Proof.
  induction l as [|k r IH]; cbn [all_nodup In]; [split; [intros _ t []|auto]|].
  rewrite IH. split.
  - intros [H1 H2] t [<-|Ht]; auto.
  - intros H. split; [apply H; left; reflexivity|intros t Ht; apply H; right; exact Ht].
Qed.

Lemma all_nodup_perm l l' : Permutation l l' -> all_nodup l -> all_nodup l'.
Proof.
  intros HP H. apply all_nodup_forall. intros t Ht.
  apply (proj1 (all_nodup_forall l) H). exact (Permutation_in t (Permutation_sym HP) Ht).
Qed.

Lemma nodup_map_perm {A B} (h : A -> B) l l' : Permutation l l' -> NoDup (map h l) -> NoDup (map h l').
Proof. intros HP. apply Permutation_NoDup. apply Permutation_map. exact HP. Qed.

(* ---- what is appended: a permutation of the roots permutes the appended entries ---- *)
Lemma added_perm exts tc f gs gs' :
  Permutation gs gs' -> Permutation (added exts tc f gs) (added exts tc f gs').
Proof.
  intros HP. unfold added. apply Permutation_app.
  - destruct gs as [|g r].
    + apply Permutation_nil in HP. subst gs'. apply Permutation_refl.
    + destruct gs' as [|g' r']; [apply Permutation_sym, Permutation_nil in HP; discriminate|apply Permutation_refl].
  - apply Permutation_flat_map. exact HP.
Qed.

(* ---- the make_roots level, for well-formed grown roots ---- *)
Section MakeRootsOrder.
Variables (exts : list str) (tc : list str) (gs gs' : list gtree) (f : fsmap).
Hypothesis Htc : eok tc.
Hypothesis Atc : acc tc.
Hypothesis Hw : Forall (wf_g []) gs.
Hypothesis Hnd : NoDup (map gname gs).
Hypothesis Hd : dirs_or_none f [] tc.
Hypothesis Hb : forall g, In g gs -> below f (tc ++ [gname g]).
Hypothesis HP : Permutation gs gs'.

Lemma perm_wf : Forall (wf_g []) gs'.
Proof. exact (Forall_perm _ gs gs' HP Hw). Qed.

Lemma perm_nd : NoDup (map gname gs').
Proof. exact (nodup_map_perm gname gs gs' HP Hnd). Qed.

Lemma perm_below : forall g, In g gs' -> below f (tc ++ [gname g]).
Proof. intros g Hg. apply Hb. exact (Permutation_in g (Permutation_sym HP) Hg). Qed.

(* every order succeeds, appending its own [added] *)
Theorem make_roots_perm_exact :
  make_roots exts (pth tc) f gs' = (f ++ added exts tc f gs', true).
Proof. apply make_roots_exact; [exact Htc|exact Atc|exact perm_wf|exact perm_nd|exact Hd|exact perm_below]. Qed.

(* ... and the results are the same finite map *)
Theorem make_roots_perm :
  exists f1 f2,
    make_roots exts (pth tc) f gs = (f1, true) /\
    make_roots exts (pth tc) f gs' = (f2, true) /\
    Permutation f1 f2 /\
    (forall p, lookup p f1 = lookup p f2) /\
    (forall p, In p (map fst f1) <-> In p (map fst f2)).
Proof.
  exists (f ++ added exts tc f gs), (f ++ added exts tc f gs').
  assert (PA : Permutation (f ++ added exts tc f gs) (f ++ added exts tc f gs')).
  { apply Permutation_app_head. apply added_perm. exact HP. }
  split; [apply make_roots_exact; assumption|]. split; [exact make_roots_perm_exact|].
  split; [exact PA|]. split.
  - intros p. apply lookup_app_perm; [apply added_perm; exact HP|apply added_nodup; assumption].
  - intros p. split; apply Permutation_in; [|apply Permutation_sym]; apply Permutation_map; exact PA.
Qed.

End MakeRootsOrder.

(* ---- one root at a time ---- *)
Lemma nodup_app_l {A} (a b : list A) : NoDup (a ++ b) -> NoDup a.
Proof.
  induction a as [|x a IH]; intros H; [constructor|]. cbn [app] in H. inversion H as [|? ? Hn Hr]; subst.
  constructor; [intros X; apply Hn; apply in_or_app; left; exact X|apply IH; exact Hr].
Qed.

Lemma make_roots_app exts target : forall l1 l2 f,
  make_roots exts target f (l1 ++ l2) =
  (let '(f1, ok) := make_roots exts target f l1 in
   if ok then make_roots exts target f1 l2 else (f1, false)).
Proof.
  induction l1 as [|g r IH]; intros l2 f; [cbn; destruct (make_roots exts target f l2); reflexivity|].
  cbn [app make_roots]. destruct (make_node exts target f g) as [f1 ok]. destruct ok; [apply IH|reflexivity].
Qed.

Lemma make_roots_one exts target f g :
  make_roots exts target f [g] = make_node exts target f g.
Proof. cbn [make_roots]. destruct (make_node exts target f g) as [f1 ok]. destruct ok; reflexivity. Qed.

Lemma added_snoc exts tc f l g :
  added exts tc f (l ++ [g]) =
  added exts tc f l ++ (match l with [] => miss f [] tc | _ => [] end) ++ entries exts (pth tc) g.
Proof.
  unfold added. rewrite flat_map_app. cbn [flat_map]. rewrite app_nil_r.
  destruct l as [|x l']; cbn [app flat_map]; [reflexivity|]. rewrite <- !app_assoc. reflexivity.
Qed.

Section OneAtATime.
Variables (exts : list str) (tc : list str) (gs : list gtree) (f : fsmap).
Hypothesis Htc : eok tc.
Hypothesis Atc : acc tc.
Hypothesis Hw : Forall (wf_g []) gs.
Hypothesis Hnd : NoDup (map gname gs).
Hypothesis Hd : dirs_or_none f [] tc.
Hypothesis Hb : forall g, In g gs -> below f (tc ++ [gname g]).

(* in ANY order gs' = done ++ g :: todo of the roots: the roots in [done] have been created,
   the state is f ++ added done, and creating g on that state succeeds and appends exactly
   g's own entries (preceded, for the very first root only, by the absent prefixes of the
   target directory) *)
Theorem make_node_step gs' done g todo :
  Permutation gs gs' -> gs' = done ++ g :: todo ->
  let f1 := f ++ added exts tc f done in
  make_roots exts (pth tc) f done = (f1, true) /\
  make_node exts (pth tc) f1 g =
    (f1 ++ (match done with [] => miss f [] tc | _ => [] end) ++ entries exts (pth tc) g, true).
Proof.
  intros HP E f1.
  pose proof (perm_wf gs gs' Hw HP) as Hw'. pose proof (perm_nd gs gs' Hnd HP) as Hnd'.
  pose proof (perm_below tc gs gs' f Hb HP) as Hb'. subst gs'.
  assert (Hsub : forall l, (forall x, In x l -> In x (done ++ g :: todo)) ->
            NoDup (map gname l) ->
            make_roots exts (pth tc) f l = (f ++ added exts tc f l, true)).
  { intros l Hl Hndl. apply make_roots_exact; [exact Htc|exact Atc| |exact Hndl|exact Hd|].
    - apply Forall_forall. intros x Hx. rewrite Forall_forall in Hw'. apply Hw'. apply Hl. exact Hx.
    - intros x Hx. apply Hb'. apply Hl. exact Hx. }
  assert (Hnd2 : NoDup (map gname (done ++ [g]))).
  { rewrite map_app in Hnd'. cbn [map] in Hnd'. rewrite map_app. cbn [map].
    change (gname g :: map gname todo) with ([gname g] ++ map gname todo) in Hnd'. rewrite app_assoc in Hnd'.
    apply nodup_app_l in Hnd'. exact Hnd'. }
  assert (S1 : make_roots exts (pth tc) f done = (f1, true)).
  { apply Hsub.
    - intros x Hx. apply in_or_app. left. exact Hx.
    - rewrite map_app in Hnd2. apply nodup_app_l in Hnd2. exact Hnd2. }
  split; [exact S1|].
  assert (S2 : make_roots exts (pth tc) f (done ++ [g]) = (f ++ added exts tc f (done ++ [g]), true)).
  { apply Hsub; [|exact Hnd2]. intros x Hx. apply in_app_or in Hx as [Hx|[<-|[]]]; apply in_or_app; [left; exact Hx|right; left; reflexivity]. }
  rewrite make_roots_app, S1, make_roots_one in S2. rewrite S2, added_snoc. unfold f1.
  rewrite <- !app_assoc. reflexivity.
Qed.

(* each root's entries lie at or below that root's own path ... *)
Theorem root_entries_below_root g p k :
  In g gs -> In (p, k) (entries exts (pth tc) g) ->
  under (pth (tc ++ [gname g])) p = true /\ exists m, eok m /\ p = pth (tc ++ [gname g] ++ m).
Proof.
  intros Hg Hin. split.
  - exact (entries_under_own exts tc gs f Htc Atc Hw Hd Hb g (p, k) Hg Hin).
  - rewrite Forall_forall in Hw. exact (entries_keys exts tc Htc g [] (Hw g Hg) ltac:(constructor) p k Hin).
Qed.

(* ... and not below any other root's path: two roots never touch the same path *)
Theorem root_entries_not_below_other g g' p k :
  In g gs -> In g' gs -> g <> g' -> In (p, k) (entries exts (pth tc) g') ->
  under (pth (tc ++ [gname g])) p = false.
Proof. intros Hg Hg' Hne Hin. exact (entries_under_other exts tc gs f Htc Atc Hw Hnd Hd Hb g g' (p, k) Hg Hg' Hne Hin). Qed.

Theorem root_entries_disjoint g g' p :
  In g gs -> In g' gs -> g <> g' ->
  In p (map fst (entries exts (pth tc) g)) -> ~ In p (map fst (entries exts (pth tc) g')).
Proof.
  intros Hg Hg' Hne H1 H2.
  apply in_map_iff in H1 as [[p1 k1] [E1 H1]]. apply in_map_iff in H2 as [[p2 k2] [E2 H2]].
  cbn [fst] in E1, E2. subst p1 p2.
  destruct (root_entries_below_root g p k1 Hg H1) as [U _].
  rewrite (root_entries_not_below_other g g' p k2 Hg Hg' Hne H2) in U. discriminate.
Qed.

(* the node paths of a root are new when its turn comes, whatever was created before it *)
Theorem root_entries_fresh gs' done g todo p k :
  Permutation gs gs' -> gs' = done ++ g :: todo ->
  In (p, k) (entries exts (pth tc) g) -> lookup p (f ++ added exts tc f done) = None.
Proof.
  intros HP E Hin.
  assert (Hg : In g gs).
  { apply (Permutation_in g (Permutation_sym HP)). rewrite E. apply in_or_app. right. left. reflexivity. }
  assert (Hdone : forall x, In x done -> In x gs /\ x <> g).
  { intros x Hx. split.
    - apply (Permutation_in x (Permutation_sym HP)). rewrite E. apply in_or_app. left. exact Hx.
    - intros X. subst x. pose proof (perm_nd gs gs' Hnd HP) as N. rewrite E, map_app in N. cbn [map] in N.
      apply NoDup_remove_2 in N. apply N. apply in_or_app. left. apply in_map. exact Hx. }
  rewrite lookup_app.
  assert (L0 : lookup p f = None).
  { destruct (root_entries_below_root g p k Hg Hin) as [_ [m [Hm ->]]]. rewrite app_assoc. apply Hb; assumption. }
  rewrite L0. apply lookup_none_notin. intros X. apply in_map_iff in X as [[q k'] [Eq X]]. cbn [fst] in Eq. subst q.
  unfold added in X. apply in_app_or in X as [X|X].
  - assert (X2 : In (p, k') (miss f [] tc)) by (destruct done; [destruct X|exact X]).
    destruct (root_entries_below_root g p k Hg Hin) as [_ [m [Hm E2]]].
    rewrite Forall_forall in Hw. destruct (wf_g_name _ _ (Hw g Hg)) as [Hn _].
    eapply (miss_key_short f tc p k' m (gname g)); [exact X2| |exact E2].
    apply eok_app. split; [exact Htc|constructor; assumption].
  - apply in_flat_map in X as [x [Hx X]]. destruct (Hdone x Hx) as [Hxg Hne].
    apply (root_entries_disjoint x g p Hxg Hg Hne).
    + apply in_map_iff. exists (p, k'). auto.
    + apply in_map_iff. exists (p, k). auto.
Qed.

End OneAtATime.

(* ---- the mkdirer level ---- *)

(* isExistRoot looks at all the roots before anything is created: its answer, hence the
   EExistPath verdict (with the file system untouched), is the same in every order *)
Lemma existsb_perm {A} (h : A -> bool) l l' : Permutation l l' -> existsb h l = existsb h l'.
Proof.
  induction 1 as [|x l l' _ IH|x y l|l1 l2 l3 _ IH1 _ IH2]; cbn [existsb].
  - reflexivity.
  - rewrite IH. reflexivity.
  - destruct (h x); destruct (h y); reflexivity.
  - rewrite IH1. exact IH2.
Qed.

Theorem exists_root_perm f target gs gs' :
  Permutation gs gs' -> exists_root f target gs = exists_root f target gs'.
Proof. intros HP. unfold exists_root. apply existsb_perm. exact HP. Qed.

Lemma mkdirer_exist_iff exts dir f gs :
  snd (mkdirer exts dir f gs) = Err EExistPath <-> exists_root f (target_of dir) gs = true.
Proof.
  unfold mkdirer. destruct (exists_root f (target_of dir) gs).
  - cbn [snd]. split; reflexivity.
  - destruct (make_roots exts (target_of dir) f gs) as [f1 ok]. cbn [snd]. destruct ok; split; discriminate.
Qed.

Theorem mkdirer_exist_perm exts dir f gs gs' :
  Permutation gs gs' ->
  (snd (mkdirer exts dir f gs) = Err EExistPath <-> snd (mkdirer exts dir f gs') = Err EExistPath) /\
  (snd (mkdirer exts dir f gs) = Err EExistPath -> mkdirer exts dir f gs' = (f, Err EExistPath)).
Proof.
  intros HP. rewrite !mkdirer_exist_iff, (exists_root_perm f (target_of dir) gs gs' HP). split; [reflexivity|].
  intros H. unfold mkdirer. rewrite H. reflexivity.
Qed.

(* REFUTATION of order-independence of the EFFECT when mkdir fails inside make_roots: the model
   (like the code) stops at the first OS refusal, so the roots handled before it exist and the
   roots after it do not.  Roots "a" and "b" where "b" has a child whose name is 256 bytes long
   (NAME_MAX exceeded; the refused component is not a root, so isExistRoot does not see it).
   Both orders return the OS error, but "a" exists afterwards only when it came first. *)
Definition ro_long : str := List.repeat (ch 120) 256.
Definition ro_ta : tree := T (ro_s [97]) [].
Definition ro_tb_bad : tree := T (ro_s [98]) [T ro_long []].

Example mkdir_failure_depends_on_order :
  let o1 := map (grow_root default_bfmt) [ro_ta; ro_tb_bad] in
  let o2 := map (grow_root default_bfmt) [ro_tb_bad; ro_ta] in
  Permutation o1 o2 /\
  snd (mkdirer [] [] [] o1) = Err EOs /\
  snd (mkdirer [] [] [] o2) = Err EOs /\
  lookup (ro_s [97]) (fst (mkdirer [] [] [] o1)) = Some KDir /\
  lookup (ro_s [97]) (fst (mkdirer [] [] [] o2)) = None.
Proof.
  cbn zeta. split; [apply perm_swap|].
  split; [vm_compute; reflexivity|]. split; [vm_compute; reflexivity|].
  split; vm_compute; reflexivity.
Qed.

(* the same at the make_roots level, as a negated universal statement *)
Example make_roots_order_not_irrelevant_on_failure :
  ~ (forall exts target f gs gs', Permutation gs gs' ->
       forall p, lookup p (fst (make_roots exts target f gs)) = lookup p (fst (make_roots exts target f gs'))).
Proof.
  intros H.
  specialize (H [] [c_dot] [] (map (grow_root default_bfmt) [ro_ta; ro_tb_bad])
                (map (grow_root default_bfmt) [ro_tb_bad; ro_ta]) (perm_swap _ _ _) (ro_s [97])).
  vm_compute in H. discriminate.
Qed.

(* THE SUCCESS CASE, for well-formed grown roots: under the hypotheses of [mkdir_exact_grown]
   every order succeeds, the two file systems are the same finite map, both are well formed,
   and verification of the forest in EITHER order passes on EITHER result *)
Theorem mkdirer_perm_grown exts tc gs gs' f :
  eok tc -> acc tc -> Forall (wf_g []) gs -> NoDup (map gname gs) ->
  fs_ok f ->
  (forall g, In g gs -> stat f (tjoin (pth tc) (gpath g)) = StNone) ->
  Permutation gs gs' ->
  let f1 := f ++ added exts tc f gs in
  let f2 := f ++ added exts tc f gs' in
  mkdirer exts (dir_of tc) f gs = (f1, Ok tt) /\
  mkdirer exts (dir_of tc) f gs' = (f2, Ok tt) /\
  Permutation f1 f2 /\
  (forall p, lookup p f1 = lookup p f2) /\
  (forall p, In p (map fst f1) <-> In p (map fst f2)) /\
  fs_ok f1 /\ fs_ok f2 /\
  (forall strict, verifier strict (pth tc) f2 gs = Ok tt) /\
  (forall strict, verifier strict (pth tc) f1 gs' = Ok tt).
Proof.
  intros Htc Atc Hw Hnd Hok Hs HP f1 f2.
  assert (Hs' : forall g, In g gs' -> stat f (tjoin (pth tc) (gpath g)) = StNone).
  { intros g Hg. apply Hs. exact (Permutation_in g (Permutation_sym HP) Hg). }
  destruct (mkdir_exact_grown exts tc gs f Htc Atc Hw Hnd Hok Hs) as [M1 [_ [_ [_ [V1 [_ [K1 _]]]]]]].
  destruct (mkdir_exact_grown exts tc gs' f Htc Atc (perm_wf gs gs' Hw HP) (perm_nd gs gs' Hnd HP) Hok Hs')
    as [M2 [_ [_ [_ [V2 [_ [K2 _]]]]]]].
  assert (PA : Permutation f1 f2).
  { unfold f1, f2. apply Permutation_app_head. apply added_perm. exact HP. }
  split; [exact M1|]. split; [exact M2|]. split; [exact PA|]. split; [|split; [|split; [exact K1|split; [exact K2|split]]]].
  - intros p. unfold f1, f2. apply lookup_app_perm; [apply added_perm; exact HP|apply added_nodup; assumption].
  - intros p. split; apply Permutation_in; [|apply Permutation_sym]; apply Permutation_map; exact PA.
  - intros strict. apply (verifier_ok_perm strict (pth tc) f2 gs gs' HP). apply V2.
  - intros strict. apply (verifier_ok_perm strict (pth tc) f1 gs gs' HP). apply V1.
Qed.

(* THE SUCCESS CASE, for forests grown from trees: exactly the hypotheses of [mkdir_exact] *)
Theorem mkdir_order_irrelevant bf exts tc ts ts' f :
  eok tc -> acc tc ->
  Forall (fun t => Forall name_ok (tnames t)) ts -> all_nodup ts -> NoDup (map tname ts) ->
  fs_ok f ->
  (forall t, In t ts -> stat f (tjoin (pth tc) (tname t)) = StNone) ->
  Permutation ts ts' ->
  let gs := map (grow_root bf) ts in
  let gs' := map (grow_root bf) ts' in
  let f1 := f ++ added exts tc f gs in
  let f2 := f ++ added exts tc f gs' in
  mkdirer exts (dir_of tc) f gs = (f1, Ok tt) /\
  mkdirer exts (dir_of tc) f gs' = (f2, Ok tt) /\
  Permutation f1 f2 /\
  (forall p, lookup p f1 = lookup p f2) /\
  (forall p, In p (map fst f1) <-> In p (map fst f2)) /\
  fs_ok f1 /\ fs_ok f2 /\
  (forall strict, verifier strict (pth tc) f2 gs = Ok tt) /\
  (forall strict, verifier strict (pth tc) f1 gs' = Ok tt).
Proof.
  intros Htc Atc Hn Hd Hr Hok Hs HP gs gs'.
  destruct (grow_roots_wf bf ts Hn Hd Hr) as [Hw Hnd].
  apply mkdirer_perm_grown; try assumption.
  - intros g Hg. unfold gs in Hg. apply in_map_iff in Hg as [t [E Ht]]. subst g.
    rewrite Forall_forall in Hw. rewrite (root_path (grow_root bf t)) by (apply Hw; apply in_map; exact Ht).
    unfold grow_root. rewrite gname_grow. apply Hs. exact Ht.
  - unfold gs, gs'. apply Permutation_map. exact HP.
Qed.

(* the hypotheses of [mkdir_exact] are themselves invariant under a permutation of the roots *)
Lemma mkdir_hyps_perm tc ts ts' f :
  Permutation ts ts' ->
  Forall (fun t => Forall name_ok (tnames t)) ts -> all_nodup ts -> NoDup (map tname ts) ->
  (forall t, In t ts -> stat f (tjoin (pth tc) (tname t)) = StNone) ->
  Forall (fun t => Forall name_ok (tnames t)) ts' /\ all_nodup ts' /\ NoDup (map tname ts') /\
  (forall t, In t ts' -> stat f (tjoin (pth tc) (tname t)) = StNone).
Proof.
  intros HP Hn Hd Hr Hs. split; [exact (Forall_perm _ ts ts' HP Hn)|].
  split; [exact (all_nodup_perm ts ts' HP Hd)|]. split; [exact (nodup_map_perm tname ts ts' HP Hr)|].
  intros t Ht. apply Hs. exact (Permutation_in t (Permutation_sym HP) Ht).
Qed.

(* ================= 3. WALK and TEXT OUTPUT ================= *)

(* the visits of a forest are the per-root visit lists, concatenated in the order of the roots *)
Theorem visits_of_blocks gs : visits_of gs = flat_map (fun g => visits_of [g]) gs.
Proof.
  unfold visits_of. apply flat_map_ext. intros g. cbn [flat_map]. rewrite app_nil_r. reflexivity.
Qed.

Corollary visits_of_concat gs : visits_of gs = concat (map (fun g => visits_of [g]) gs).
Proof. rewrite visits_of_blocks. apply flat_map_concat_map. Qed.

Corollary visits_of_app gs1 gs2 : visits_of (gs1 ++ gs2) = visits_of gs1 ++ visits_of gs2.
Proof. unfold visits_of. apply flat_map_app. Qed.

(* any order shows the same multiset of per-root blocks, each block intact and in its own order *)
Theorem visit_blocks_perm gs gs' :
  Permutation gs gs' ->
  visits_of gs' = concat (map (fun g => visits_of [g]) gs') /\
  Permutation (map (fun g => visits_of [g]) gs') (map (fun g => visits_of [g]) gs).
Proof.
  intros HP. split; [apply visits_of_concat|]. apply Permutation_map. apply Permutation_sym. exact HP.
Qed.

(* hence the same multiset of visits, and the same number of callback invocations *)
Corollary visits_perm gs gs' : Permutation gs gs' -> Permutation (visits_of gs') (visits_of gs).
Proof. intros HP. unfold visits_of. apply Permutation_flat_map. apply Permutation_sym. exact HP. Qed.

Corollary visits_length_perm gs gs' :
  Permutation gs gs' -> List.length (visits_of gs') = List.length (visits_of gs).
Proof. intros HP. apply Permutation_length. apply visits_perm. exact HP. Qed.

(* the walk itself: the callback oracle answers by invocation number, so the returned value
   (nil, or the error of the k-th invocation) is the same in every order; with a callback
   that never fails the walk shows all the blocks *)
Theorem walk_result_perm cb gs gs' :
  Permutation gs gs' -> snd (walk cb gs') = snd (walk cb gs).
Proof.
  intros HP. rewrite !walk_prefix, (visits_length_perm gs gs' HP).
  destruct (first_fail cb 0 (List.length (visits_of gs))); reflexivity.
Qed.

Theorem walk_all_blocks_perm cb gs gs' :
  Permutation gs gs' -> (forall i, cb i = false) ->
  walk cb gs' = (concat (map (fun g => visits_of [g]) gs'), Ok tt) /\
  Permutation (map (fun g => visits_of [g]) gs') (map (fun g => visits_of [g]) gs).
Proof.
  intros HP Hcb. split; [|apply (visit_blocks_perm gs gs' HP)].
  rewrite <- visits_of_concat. unfold walk. generalize 0 as i.
  induction (visits_of gs') as [|v r IH]; intros i; [reflexivity|].
  cbn [walk_go]. rewrite Hcb, IH. reflexivity.
Qed.

(* for forests grown from trees with valid names the blocks are those of the specification *)
Lemma all_names_ok_forall l : all_names_ok l <-> forall t, In t l -> names_ok t.
Proof.
  induction l as [|k r IH]; cbn [all_names_ok In]; [split; [intros _ t []|auto]|].
  rewrite IH. split.
  - intros [H1 H2] t [<-|Ht]; auto.
  - intros H. split; [apply H; left; reflexivity|intros t Ht; apply H; right; exact Ht].
Qed.

Theorem spec_visit_blocks_perm bf ts ts' :
  all_names_ok ts -> Permutation ts ts' ->
  visits_of (map (grow_root bf) ts') = concat (map (sv_root bf) ts') /\
  Permutation (map (sv_root bf) ts') (map (sv_root bf) ts).
Proof.
  intros Hn HP. split; [|apply Permutation_map; apply Permutation_sym; exact HP].
  assert (Hn' : all_names_ok ts').
  { apply all_names_ok_forall. intros t Ht. apply (proj1 (all_names_ok_forall ts) Hn).
    exact (Permutation_in t (Permutation_sym HP) Ht). }
  rewrite (visits_forest bf ts' Hn'). unfold spec_visits. apply flat_map_concat_map.
Qed.

(* the text: [render] is by definition the concatenation of the per-root blocks *)
Theorem render_blocks bf ts : render bf ts = concat (map (render_root bf) ts).
Proof. reflexivity. Qed.

Theorem render_blocks_perm bf ts ts' :
  Permutation ts ts' ->
  render bf ts' = concat (map (render_root bf) ts') /\
  Permutation (map (render_root bf) ts') (map (render_root bf) ts).
Proof. intros HP. split; [reflexivity|]. apply Permutation_map. apply Permutation_sym. exact HP. Qed.

(* the same for what the model's spreader writes for the grown roots *)
Theorem text_blocks_perm bf ts ts' :
  Permutation ts ts' ->
  concat (map (fun t => text_of (grow_root bf t)) ts') = render bf ts' /\
  Permutation (map (fun t => text_of (grow_root bf t)) ts') (map (render_root bf) ts).
Proof.
  intros HP. split; [apply grow_render_forest|].
  rewrite (map_ext _ (render_root bf) (grow_root_render bf)).
  apply Permutation_map. apply Permutation_sym. exact HP.
Qed.

(* the same bytes, as a multiset, and the same length *)
Corollary render_perm bf ts ts' : Permutation ts ts' -> Permutation (render bf ts') (render bf ts).
Proof.
  intros HP. unfold render. rewrite <- !flat_map_concat_map. apply Permutation_flat_map.
  apply Permutation_sym. exact HP.
Qed.

(* ================= 4. the packaged theorem ================= *)

(* For every permutation ts' of the roots ts of a forest (gs, gs' the grown roots):
   (V) on any file system, strict or not, verify returns nil in the order ts' iff it does in
       the sequential order, and an error returned in the order ts' is the exact report of a
       root of the forest;
   (M) under the success hypotheses of [mkdir_exact], mkdir succeeds in both orders and the two
       file systems are the same finite map (equal lookups, same keys, permuted association
       lists), both well formed, and both verify in either order;
   (W) the walk's per-root visit blocks are a permutation of the sequential ones, each intact;
   (T) the text's per-root blocks are a permutation of the sequential ones, each intact. *)
Theorem root_order_irrelevant bf exts tc ts ts' f :
  Permutation ts ts' ->
  let gs := map (grow_root bf) ts in
  let gs' := map (grow_root bf) ts' in
  (* V *)
  (forall strict target fv,
     (verifier strict target fv gs' = Ok tt <-> verifier strict target fv gs = Ok tt) /\
     (forall e m, verifier strict target fv gs' = Err (EVerify e m) ->
        exists g, In g gs /\ verify_root strict target fv g = VFail e m) /\
     (verifier strict target fv gs' = Err EOs ->
        exists g, In g gs /\ verify_root strict target fv g = VErr)) /\
  (* M *)
  (eok tc -> acc tc ->
   Forall (fun t => Forall name_ok (tnames t)) ts -> all_nodup ts -> NoDup (map tname ts) ->
   fs_ok f ->
   (forall t, In t ts -> stat f (tjoin (pth tc) (tname t)) = StNone) ->
   exists f1 f2,
     mkdirer exts (dir_of tc) f gs = (f1, Ok tt) /\
     mkdirer exts (dir_of tc) f gs' = (f2, Ok tt) /\
     (forall p, lookup p f1 = lookup p f2) /\
     (forall p, In p (map fst f1) <-> In p (map fst f2)) /\
     Permutation f1 f2 /\
     fs_ok f1 /\ fs_ok f2 /\
     (forall strict, verifier strict (pth tc) f2 gs = Ok tt) /\
     (forall strict, verifier strict (pth tc) f1 gs' = Ok tt)) /\
  (* W *)
  (visits_of gs' = concat (map (fun g => visits_of [g]) gs') /\
   Permutation (map (fun g => visits_of [g]) gs') (map (fun g => visits_of [g]) gs)) /\
  (* T *)
  (render bf ts' = concat (map (render_root bf) ts') /\
   Permutation (map (render_root bf) ts') (map (render_root bf) ts)).
Proof.
  intros HP gs gs'.
  assert (HPg : Permutation gs gs') by (unfold gs, gs'; apply Permutation_map; exact HP).
  split; [|split; [|split]].
  - intros strict target fv. split; [|split].
    + symmetry. apply verifier_ok_perm. exact HPg.
    + intros e m. apply verifier_fail_perm. exact HPg.
    + apply verifier_os_perm. exact HPg.
  - intros Htc Atc Hn Hd Hr Hok Hs.
    destruct (mkdir_order_irrelevant bf exts tc ts ts' f Htc Atc Hn Hd Hr Hok Hs HP)
      as [M1 [M2 [PA [L [K [K1 [K2 [V2 V1]]]]]]]].
    exists (f ++ added exts tc f gs), (f ++ added exts tc f gs').
    repeat (split; [assumption|]). assumption.
  - apply visit_blocks_perm. exact HPg.
  - apply render_blocks_perm. exact HP.
Qed.

(* ================= a concrete three-root forest ================= *)
(* tgt / a { m.go, d } , b , c { x }  with exts = [".go"], into the empty file system, created
   in the orders a,b,c and c,a,b: different association lists, equal lookups *)
Definition ro_tc : list str := [ro_s [116;103;116]].
Definition ro_exts : list str := [ro_s [46;103;111]].
Definition ro_t1 : tree := T (ro_s [97]) [T (ro_s [109;46;103;111]) []; T (ro_s [100]) []].
Definition ro_t2 : tree := T (ro_s [98]) [].
Definition ro_t3 : tree := T (ro_s [99]) [T (ro_s [120]) []].
Definition ro_ts : list tree := [ro_t1; ro_t2; ro_t3].
Definition ro_ts' : list tree := [ro_t3; ro_t1; ro_t2].

Definition ro_fs1 : fsmap :=
  [(ro_s [116;103;116], KDir);
   (ro_s [116;103;116;47;97], KDir);
   (ro_s [116;103;116;47;97;47;109;46;103;111], KFile true);
   (ro_s [116;103;116;47;97;47;100], KDir);
   (ro_s [116;103;116;47;98], KDir);
   (ro_s [116;103;116;47;99], KDir);
   (ro_s [116;103;116;47;99;47;120], KDir)].
Definition ro_fs2 : fsmap :=
  [(ro_s [116;103;116], KDir);
   (ro_s [116;103;116;47;99], KDir);
   (ro_s [116;103;116;47;99;47;120], KDir);
   (ro_s [116;103;116;47;97], KDir);
   (ro_s [116;103;116;47;97;47;109;46;103;111], KFile true);
   (ro_s [116;103;116;47;97;47;100], KDir);
   (ro_s [116;103;116;47;98], KDir)].

Example ro_three_roots_compute :
  mkdirer ro_exts (dir_of ro_tc) [] (map (grow_root default_bfmt) ro_ts) = (ro_fs1, Ok tt) /\
  mkdirer ro_exts (dir_of ro_tc) [] (map (grow_root default_bfmt) ro_ts') = (ro_fs2, Ok tt) /\
  ro_fs1 <> ro_fs2 /\
  map (fun p => lookup p ro_fs1) (map fst ro_fs1) = map (fun p => lookup p ro_fs2) (map fst ro_fs1).
Proof.
  split; [vm_compute; reflexivity|]. split; [vm_compute; reflexivity|]. split; [|vm_compute; reflexivity].
  vm_compute. intros X. inversion X.
Qed.

Lemma ro_perm : Permutation ro_ts ro_ts'.
Proof. unfold ro_ts, ro_ts'. apply Permutation_sym. exact (Permutation_cons_append [ro_t1; ro_t2] ro_t3). Qed.

Lemma ro_hyps :
  eok ro_tc /\ acc ro_tc /\ Forall (fun t => Forall name_ok (tnames t)) ro_ts /\ all_nodup ro_ts /\
  NoDup (map tname ro_ts) /\ fs_ok [] /\
  (forall t, In t ro_ts -> stat [] (tjoin (pth ro_tc) (tname t)) = StNone).
Proof.
  repeat match goal with |- _ /\ _ => split end.
  - repeat constructor.
  - repeat constructor.
  - repeat (constructor; try (split; vm_compute; reflexivity)).
  - cbn. repeat split; repeat constructor; cbn; intuition discriminate.
  - cbn. repeat constructor; cbn; intuition discriminate.
  - split; [constructor|]. intros p k L. discriminate.
  - intros t [<-|[<-|[<-|[]]]]; vm_compute; reflexivity.
Qed.

(* the instance of the theorem: for EVERY path the two results agree *)
Example ro_three_roots_same_map : forall p, lookup p ro_fs1 = lookup p ro_fs2.
Proof.
  destruct ro_hyps as [Htc [Atc [Hn [Hd [Hr [Hok Hs]]]]]].
  destruct (mkdir_order_irrelevant default_bfmt ro_exts ro_tc ro_ts ro_ts' [] Htc Atc Hn Hd Hr Hok Hs ro_perm)
    as [M1 [M2 [_ [L _]]]].
  destruct ro_three_roots_compute as [C1 [C2 _]].
  rewrite C1 in M1. rewrite C2 in M2.
  apply (f_equal fst) in M1. apply (f_equal fst) in M2. cbn [fst] in M1, M2.
  intros p. rewrite M1, M2. apply L.
Qed.

Print Assumptions verifier_ok_perm.
Print Assumptions verifier_fail_perm.
Print Assumptions verifier_os_perm.
Print Assumptions verifier_any_report.
Print Assumptions verifier_perm_one_differs.
Print Assumptions verifier_error_depends_on_order.
Print Assumptions make_roots_perm.
Print Assumptions make_node_step.
Print Assumptions root_entries_disjoint.
Print Assumptions root_entries_fresh.
Print Assumptions mkdirer_exist_perm.
Print Assumptions mkdir_failure_depends_on_order.
Print Assumptions make_roots_order_not_irrelevant_on_failure.
Print Assumptions mkdirer_perm_grown.
Print Assumptions mkdir_order_irrelevant.
Print Assumptions visit_blocks_perm.
Print Assumptions walk_result_perm.
Print Assumptions walk_all_blocks_perm.
Print Assumptions spec_visit_blocks_perm.
Print Assumptions render_blocks_perm.
Print Assumptions text_blocks_perm.
Print Assumptions root_order_irrelevant.
Print Assumptions ro_three_roots_compute.
Print Assumptions ro_three_roots_same_map.
