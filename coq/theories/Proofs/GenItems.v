(* Proofs/GenItems.v — the line-level generator (gen_loop) factors through the parser:
   its result is a function of the sequence of parse results, and on the pre-order
   item listing of a forest it builds the forest of tries. *)
From Coq Require Import List Ascii Arith Bool Lia.
From GT Require Import Base.GoStr Md.Parser Tree.Tree Tree.Gen Spec.Spec Proofs.TreeInd Proofs.BuildTrie.
Import ListNotations.

(* item-level generator state: completed roots (newest first) and the pending root *)
Definition ist := (list tree * option (tree * list nat))%type.

Definition istep (s : ist) (it : nat * str) : option ist :=
  let '(done, cur) := s in
  if fst it =? 1 then
    Some (match cur with Some (t, _) => t :: done | None => done end, Some (T (snd it) [], []))
  else match cur with
       | None => None
       | Some st => match item_step st it with
                    | Some st' => Some (done, Some st')
                    | None => None
                    end
       end.

Fixpoint irun (s : ist) (its : list (nat * str)) : option ist :=
  match its with
  | [] => Some s
  | it :: r => match istep s it with Some s' => irun s' r | None => None end
  end.

Lemma irun_app s a b :
  irun s (a ++ b) = match irun s a with Some s' => irun s' b | None => None end.
Proof.
  revert s. induction a as [|x a IH]; intros s; cbn; [reflexivity|].
  destruct (istep s x); [apply IH|reflexivity].
Qed.

(* rows whose parse results are blanks or the given items *)
Inductive parses : pstate -> list str -> list (nat * str) -> pstate -> Prop :=
| parses_nil st : parses st [] [] st
| parses_blank st row rows its st' :
    parse st row = (st, PBlank) -> parses st rows its st' -> parses st (row :: rows) its st'
| parses_item st row rows d n its st1 st' :
    parse st row = (st1, PItem d n) -> 1 <= d -> parses st1 rows its st' ->
    parses st (row :: rows) ((d, n) :: its) st'.

Definition ist_of (s : gst) : ist := (g_done s, g_cur s).

Lemma gen_loop_items : forall rows st its st' s,
  parses st rows its st' -> g_p s = st ->
  forall s2, irun (ist_of s) its = Some s2 ->
  exists s', gen_loop s rows = SCont s' /\ ist_of s' = s2 /\ g_p s' = st'.
Proof.
  intros rows st its st' s H. revert s.
  induction H as [st|st row rows its st' Hp Hr IH|st row rows d n its st1 st' Hp Hd Hr IH]; intros s Hs s2 Hrun.
  - cbn in Hrun. inversion Hrun; subst. exists s. cbn. auto.
  - cbn [gen_loop]. unfold gen_step. rewrite Hs, Hp.
    apply (IH {| g_p := st; g_done := g_done s; g_cur := g_cur s |}); auto.
  - cbn [gen_loop]. unfold gen_step. rewrite Hs, Hp.
    cbn [irun] in Hrun. unfold istep in Hrun at 1. unfold ist_of in Hrun. cbn [fst snd] in Hrun.
    destruct (d =? 1) eqn:E.
    + apply (IH {| g_p := st1; g_done := match g_cur s with Some (t, _) => t :: g_done s | None => g_done s end;
                   g_cur := Some (T n [], []) |}); auto.
    + destruct (g_cur s) as [[t c]|] eqn:C; [|discriminate].
      unfold item_step in Hrun. cbn [fst snd] in Hrun.
      destruct (d - 2 <=? List.length c) eqn:L; [|discriminate].
      destruct (attach (firstn (d - 2) c) n t) as [[t' c']|] eqn:A; [|discriminate].
      apply (IH {| g_p := st1; g_done := g_done s; g_cur := Some (t', c') |}); auto.
Qed.

(* ---------- the items of a forest build the forest of tries ---------- *)

Definition forest_items (f : list tree) : list (nat * str) := flat_map (preorder_d 1) f.

Lemma preorder_d_ge : forall t d h n, In (h, n) (preorder_d d t) -> d <= h.
Proof.
  induction t as [m ks IH] using tree_ind'; intros d h n H. cbn [preorder_d] in H.
  destruct H as [H|H]; [inversion H; lia|].
  apply in_flat_map in H as [k [Hk Hin]].
  rewrite Forall_forall in IH. specialize (IH k Hk _ _ _ Hin). lia.
Qed.

Lemma irun_children done : forall its st,
  Forall (fun it => 2 <= fst it) its ->
  irun (done, Some st) its =
  match run_items st its with Some st' => Some (done, Some st') | None => None end.
Proof.
  induction its as [|it its IH]; intros st HF; [reflexivity|].
  inversion HF as [|? ? H2 Hr]; subst.
  cbn [irun istep run_items].
  destruct (fst it =? 1) eqn:E; [apply Nat.eqb_eq in E; lia|].
  destruct (item_step st it) as [st'|]; [apply IH; exact Hr|reflexivity].
Qed.

Lemma irun_root_block t0 done cur :
  exists c,
    irun (done, cur) (preorder_d 1 t0) =
    Some (match cur with Some (t, _) => t :: done | None => done end, Some (trie_of t0, c)).
Proof.
  destruct (build_is_trie t0) as [c Hc]. exists c.
  destruct t0 as [r ks]. cbn [tname tkids] in Hc.
  cbn [preorder_d irun istep fst snd Nat.eqb].
  rewrite irun_children.
  - rewrite Hc. reflexivity.
  - apply Forall_forall. intros [h n] Hin. cbn [fst].
    apply in_flat_map in Hin as [k [_ Hin]]. apply preorder_d_ge in Hin. exact Hin.
Qed.

(* completed roots newest first; the pending root is the last tree of the forest *)
Theorem irun_forest : forall f done cur,
  f <> [] ->
  exists c,
    irun (done, cur) (forest_items f) =
    Some (rev (map trie_of (removelast f)) ++ match cur with Some (t, _) => t :: done | None => done end,
          Some (trie_of (last f (T [] [])), c)).
Proof.
  induction f as [|t0 f IH]; intros done cur Hne; [congruence|].
  unfold forest_items. cbn [flat_map]. rewrite irun_app.
  destruct (irun_root_block t0 done cur) as [c0 H0]. rewrite H0.
  destruct f as [|t1 f'].
  - exists c0. cbn. reflexivity.
  - destruct (IH (match cur with Some (t, _) => t :: done | None => done end) (Some (trie_of t0, c0))) as [c H]; [congruence|].
    exists c. unfold forest_items in H. rewrite H.
    change (removelast (t0 :: t1 :: f')) with (t0 :: removelast (t1 :: f')).
    change (last (t0 :: t1 :: f') (T [] [])) with (last (t1 :: f') (T [] [])).
    cbn [map rev]. rewrite <- app_assoc. reflexivity.
Qed.
