(* Proofs/NoPanic.v — C12: no Panic outcome is reachable from any byte string.
   The model says Panic exactly where Go would panic (dangling node position,
   getChild out of range); these lemmas show the positions never dangle. *)
From Coq Require Import List Ascii Arith Bool Lia.
From GT Require Import Base.GoStr Md.Parser Tree.Tree Tree.Gen Tree.Grower Out.Spreader Out.Formatted Out.Walker
  Api.Simple Api.Wasm Proofs.TreeInd Proofs.Formatted.
Import ListNotations.

Lemma get_at_firstn : forall c t x k, get_at c t = Some x -> exists y, get_at (firstn k c) t = Some y.
Proof.
  induction c as [|i c IH]; intros t x k H.
  - destruct k; cbn; eauto.
  - destruct k as [|k]; [cbn; eauto|]. cbn [firstn get_at] in *.
    destruct (nth_error (tkids t) i) as [kk|]; [|discriminate]. eapply IH; eauto.
Qed.

Lemma get_at_app : forall p t x i,
  get_at p t = Some x -> get_at (p ++ [i]) t = nth_error (tkids x) i.
Proof.
  induction p as [|j p IH]; intros t x i H; cbn in *.
  - inversion H; subst. destruct (nth_error (tkids x) i); reflexivity.
  - destruct (nth_error (tkids t) j) as [k|]; [|discriminate]. apply IH. exact H.
Qed.

Lemma nth_error_upd_nth' {A} (l : list A) i f x :
  nth_error l i = Some x -> nth_error (upd_nth i f l) i = Some (f x).
Proof.
  revert i. induction l as [|y r IH]; intros [|j] H; cbn in *; try discriminate.
  - inversion H; reflexivity.
  - apply IH. exact H.
Qed.

Lemma get_at_upd_at : forall p t x f,
  get_at p t = Some x -> get_at p (upd_at p f t) = Some (f x).
Proof.
  induction p as [|j p IH]; intros t x f H; cbn in *.
  - inversion H; reflexivity.
  - destruct (nth_error (tkids t) j) as [k|] eqn:N; [|discriminate].
    rewrite (nth_error_upd_nth' _ _ _ _ N). apply IH. exact H.
Qed.

Lemma find_idx_nth nm ks i : find_idx nm ks = Some i -> exists k, nth_error ks i = Some k.
Proof.
  revert i. induction ks as [|k r IH]; intros i H; cbn in H; [discriminate|].
  destruct (str_eqb nm (tname k)).
  - inversion H; subst. exists k. reflexivity.
  - destruct (find_idx nm r) as [j|]; [|discriminate]. inversion H; subst. apply (IH j eq_refl).
Qed.

(* attaching below a valid position yields a valid position *)
Lemma attach_valid pp nm t par :
  get_at pp t = Some par ->
  exists t' c' x, attach pp nm t = Some (t', c') /\ get_at c' t' = Some x.
Proof.
  intros H. unfold attach. rewrite H.
  destruct (find_idx nm (tkids par)) as [i|] eqn:F.
  - destruct (find_idx_nth _ _ _ F) as [k N].
    exists t, (pp ++ [i]), k. split; [reflexivity|]. rewrite (get_at_app _ _ _ _ H). exact N.
  - exists (upd_at pp (add_child nm) t), (pp ++ [List.length (tkids par)]), (T nm []).
    split; [reflexivity|].
    rewrite (get_at_app _ _ (add_child nm par)) by (apply get_at_upd_at; exact H).
    unfold add_child. cbn [tkids]. apply nth_error_last.
Qed.

(* the cursor of the generator state always designates a node *)
Definition cur_ok (s : gst) : Prop :=
  match g_cur s with
  | None => True
  | Some (t, c) => exists x, get_at c t = Some x
  end.

Lemma gen_step_ok s row : cur_ok s ->
  match gen_step s row with
  | SCont s' => cur_ok s'
  | SErr _ _ => True
  | SPanic => False
  end.
Proof.
  intros H. unfold gen_step. destruct (parse (g_p s) row) as [p' r].
  destruct r as [| | |h nm]; try exact I; try exact H.
  destruct (h =? 1).
  - unfold cur_ok. cbn. exists (T nm []). reflexivity.
  - unfold cur_ok in H. destruct (g_cur s) as [[t c]|] eqn:C; [|exact I].
    destruct (h - 2 <=? List.length c); [|exact I].
    destruct H as [x Hx].
    destruct (get_at_firstn _ _ _ (h - 2) Hx) as [par Hpar].
    destruct (attach_valid _ nm _ _ Hpar) as [t' [c' [y [A G]]]].
    rewrite A. unfold cur_ok. cbn. exists y. exact G.
Qed.

Lemma gen_loop_ok : forall rows s, cur_ok s -> gen_loop s rows <> SPanic.
Proof.
  induction rows as [|r rows IH]; intros s H; cbn; [discriminate|].
  pose proof (gen_step_ok s r H) as Hs.
  destruct (gen_step s r) as [s'|s' e|]; [apply IH; exact Hs|discriminate|contradiction].
Qed.

Lemma gen_run_r_no_panic input k : gr_end (gen_run_r input k) <> Panic.
Proof.
  unfold gen_run_r. destruct (scan_lines_r input k) as [rows e].
  pose proof (gen_loop_ok rows g0 I) as H.
  destruct (gen_loop g0 rows) as [s|s er|]; cbn; try discriminate; [|contradiction].
  destruct e; discriminate.
Qed.

Lemma gen_all_r_no_panic input k : gen_all_r input k <> Panic.
Proof.
  unfold gen_all_r. pose proof (gen_run_r_no_panic input k).
  destruct (gr_end (gen_run_r input k)); congruence.
Qed.

Lemma gen_stream_r_no_panic input k : snd (gen_stream_r input k) <> Panic.
Proof.
  unfold gen_stream_r. pose proof (gen_run_r_no_panic input k).
  destruct (gr_end (gen_run_r input k)); cbn; congruence.
Qed.

(* growing and spreading never panic *)
Lemma grow_one_no_panic c fv t : grow_one c fv t <> Panic.
Proof.
  unfold grow_one. destruct (is_default (c_enc c)); [|discriminate].
  destruct (c_dry c || fv); [|discriminate].
  destruct (validate_g (grow_root (c_bf c) t)); discriminate.
Qed.

Lemma grow_all_no_panic c fv ts : grow_all c fv ts <> Panic.
Proof.
  induction ts as [|t r IH]; cbn; [discriminate|].
  pose proof (grow_one_no_panic c fv t).
  destruct (grow_one c fv t); try congruence.
  destruct (grow_all c fv r); congruence.
Qed.

Lemma enc_chunk_ok e g : exists ch, enc_chunk e g = Ok ch.
Proof. unfold enc_chunk. rewrite formatted_ok. eexists. reflexivity. Qed.

Lemma enc_chunks_ok e gs : exists cs, enc_chunks e gs = Ok cs.
Proof.
  induction gs as [|g r [cs IH]]; cbn; [eexists; reflexivity|].
  destruct (enc_chunk_ok e g) as [ch H]. rewrite H, IH. eexists. reflexivity.
Qed.

Lemma spread_all_ok c gs : exists cs, spread_all c gs = Ok cs.
Proof.
  unfold spread_all. destruct (c_dry c); [eexists; reflexivity|].
  destruct (is_default (c_enc c)); [eexists; reflexivity|]. apply enc_chunks_ok.
Qed.

Lemma spread_iter_one_ok c g : exists cs, spread_iter_one c g = Ok cs.
Proof.
  unfold spread_iter_one. destruct (c_dry c); [eexists; reflexivity|].
  destruct (is_default (c_enc c)); [eexists; reflexivity|].
  destruct (enc_chunk_ok (c_enc c) g) as [ch H]. rewrite H. eexists. reflexivity.
Qed.

Lemma output_iter_no_panic c : forall ts fin, fin <> Panic -> snd (output_iter_go c ts fin) <> Panic.
Proof.
  induction ts as [|t r IH]; intros fin Hf; cbn; [exact Hf|].
  pose proof (grow_one_no_panic c false t).
  destruct (grow_one c false t) as [g|e|]; cbn; try discriminate; [|contradiction].
  destruct (spread_iter_one_ok c g) as [ws Hw]. rewrite Hw.
  specialize (IH fin Hf). destruct (output_iter_go c r fin). cbn in *. exact IH.
Qed.

Theorem output_md_r_no_panic c input k : snd (output_md_r c input k) <> Panic.
Proof.
  unfold output_md_r. destruct (c_noiter c).
  - pose proof (gen_all_r_no_panic input k).
    destruct (gen_all_r input k) as [ts|e|]; cbn; try discriminate; [|contradiction].
    pose proof (grow_all_no_panic c false ts).
    destruct (grow_all c false ts) as [gs|e|]; cbn; try discriminate; [|contradiction].
    destruct (spread_all_ok c gs) as [cs Hc]. rewrite Hc. discriminate.
  - pose proof (gen_stream_r_no_panic input k).
    destruct (gen_stream_r input k) as [ts fin]. apply output_iter_no_panic. exact H.
Qed.

Theorem output_md_no_panic c input : snd (output_md c input) <> Panic.
Proof. apply output_md_r_no_panic. Qed.

Lemma walk_go_no_panic cb : forall vs i, snd (walk_go cb i vs) <> Panic.
Proof.
  induction vs as [|v r IH]; intros i; cbn; [discriminate|].
  destruct (cb i); cbn; [discriminate|].
  specialize (IH (S i)). destruct (walk_go cb (S i) r). cbn in *. exact IH.
Qed.

Theorem walk_md_no_panic c cb input : snd (walk_md c cb input) <> Panic.
Proof.
  unfold walk_md. cbn zeta. pose proof (gen_all_r_no_panic input None). unfold gen_all.
  destruct (gen_all_r input None) as [ts|e|]; cbn [snd]; try discriminate; [|contradiction].
  pose proof (grow_all_no_panic (no_enc c) false ts).
  destruct (grow_all (no_enc c) false ts) as [gs|e|]; cbn [snd]; try discriminate; [|contradiction].
  apply walk_go_no_panic.
Qed.

Theorem wasm_output_no_panic c input : snd (wasm_output c input) <> Panic.
Proof.
  unfold wasm_output. pose proof (gen_all_r_no_panic input None). unfold gen_all.
  destruct (gen_all_r input None) as [ts|e|]; cbn; try discriminate; [|contradiction].
  pose proof (grow_all_no_panic c false ts).
  destruct (grow_all c false ts) as [gs|e|]; cbn; try discriminate; [|contradiction].
  destruct (c_dry c); [discriminate|].
  destruct (c_enc c); try discriminate.
  destruct (enc_chunks_ok EncJSON gs) as [cs Hc]. rewrite Hc. discriminate.
Qed.

(* ---- blank input ---- *)
Lemma gen_loop_blank : forall rows s, Forall (fun r => all_space r = true) rows ->
  exists s', gen_loop s rows = SCont s' /\ g_done s' = g_done s /\ g_cur s' = g_cur s.
Proof.
  induction rows as [|r rows IH]; intros s HF; cbn; [eauto|].
  inversion HF as [|? ? Hr Hrs]; subst.
  unfold gen_step, parse. rewrite Hr.
  destruct (IH {| g_p := g_p s; g_done := g_done s; g_cur := g_cur s |} Hrs) as [s' [H1 [H2 H3]]].
  exists s'. auto.
Qed.


From GT Require Import Api.Faults.

Theorem blank_output c input rows :
  scan_lines input = (rows, ScanEOF) ->
  Forall (fun r => all_space r = true) rows ->
  exists cs, output_md c input = (cs, Ok tt) /\ chunk_bytes cs = [].
Proof.
  intros Hs HF. destruct (gen_loop_blank rows g0 HF) as [s' [Hl [Hd Hc]]].
  unfold output_md, output_md_r, gen_all_r, gen_stream_r, gen_run_r, scan_lines_r. rewrite Hs, Hl.
  cbn [gr_end gr_done gr_pending end_res]. rewrite Hd, Hc. cbn [g0 g_done g_cur frev rev_append opt_list app].
  destruct (c_noiter c).
  - cbn [grow_all]. unfold spread_all. destruct (c_dry c); [eexists; split; reflexivity|].
    destruct (is_default (c_enc c)); eexists; split; reflexivity.
  - eexists. split; reflexivity.
Qed.

(* a line at or over the scanner's limit (or a failing reader): never nil *)
Lemma output_iter_err c e : forall ts, exists e', snd (output_iter_go c ts (Err e)) = Err e'.
Proof.
  induction ts as [|t r [e' IH]]; cbn; [eexists; reflexivity|].
  destruct (grow_one c false t) as [g|e2|] eqn:G; cbn; [|eexists; reflexivity|].
  - destruct (spread_iter_one_ok c g) as [ws Hw]. rewrite Hw.
    destruct (output_iter_go c r (Err e)). cbn in *. eauto.
  - exfalso. exact (grow_one_no_panic _ _ _ G).
Qed.

Theorem scan_failure_reported c input k rows e :
  scan_lines_r input k = (rows, e) -> e <> ScanEOF ->
  exists er, snd (output_md_r c input k) = Err er.
Proof.
  intros Hs He.
  unfold output_md_r, gen_all_r, gen_stream_r, gen_run_r. rewrite Hs.
  pose proof (gen_loop_ok rows g0 I) as Hnp.
  destruct (gen_loop g0 rows) as [s|s er|]; [| |contradiction]; cbn [gr_end gr_done gr_pending].
  - assert (Hend : exists er, end_res e = Err er) by (destruct e; [congruence|eexists; reflexivity|eexists; reflexivity]).
    destruct Hend as [er Her]. rewrite Her.
    destruct (c_noiter c); [eexists; reflexivity|]. apply output_iter_err.
  - destruct (c_noiter c); [eexists; reflexivity|]. apply output_iter_err.
Qed.
