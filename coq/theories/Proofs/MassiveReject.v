(* Proofs/MassiveReject.v — rejection in massive mode, for the malformation class whose detection
   does not depend on the state of the shared parser: a non-blank row that does not start with
   '#' and contains none of the bullets - * + ("no bullet after the indentation").  Whatever the
   interleaving of the generate workers' parse calls, the worker of the block containing such a
   row does not produce a root; hence (Proofs/PipeComplete.v) the call cannot return nil. *)
From Coq Require Import List Ascii Arith Bool Lia.
From GT Require Import Base.GoStr Md.Parser Tree.Tree Conc.Splitter Conc.Pipeline Proofs.SplitSchedule Proofs.PipeComplete.
Import ListNotations.

Definition always_bad (row : str) : Prop :=
  all_space row = false /\
  match row with c :: _ => Ascii.eqb c c_sharp = false | [] => False end /\
  cut c_hy row = None /\ cut c_as row = None /\ cut c_pl row = None.

Lemma parse_always_bad st row : always_bad row -> parse st row = (st, PFormat).
Proof.
  intros (Hsp & Hc & H1 & H2 & H3). unfold parse. rewrite Hsp.
  destruct row as [|c after]; [contradiction|]. rewrite Hc.
  unfold list_symbols. cbn [separate]. unfold try_symbol. rewrite H1, H2, H3. reflexivity.
Qed.

(* the parse results a block sees are the results of its rows, in order, each in SOME parser state *)
Lemma results_of_rows : forall sched st j,
  Forall2 (fun row r => exists st', r = snd (parse st' row)) (proj j sched) (results_of j (run_sched st sched)).
Proof.
  induction sched as [|[k row] rest IH]; intros st j.
  - constructor.
  - cbn [run_sched]. destruct (parse st row) as [st' x] eqn:E.
    unfold results_of, proj in *. cbn [filter fst].
    destruct (k =? j) eqn:K; cbn [map snd].
    + constructor; [exists st; rewrite E; reflexivity|apply IH].
    + apply IH.
Qed.

Lemma worker_with_format : forall res cur, In PFormat res -> forall o, worker cur res <> BRoot o.
Proof.
  induction res as [|x res IH]; intros cur Hin o; [destruct Hin|].
  destruct x as [| | |h nm]; cbn [worker].
  - destruct Hin as [E|Hin]; [discriminate E|]. apply IH; exact Hin.
  - discriminate.
  - discriminate.
  - destruct Hin as [E|Hin]; [discriminate E|].
    destruct (h =? 1); [apply IH; exact Hin|].
    destruct cur as [[t cursor]|]; [|discriminate].
    destruct (h - 2 <=? List.length cursor); [|discriminate].
    destruct (attach (firstn (h - 2) cursor) nm t) as [st'|]; [apply IH; exact Hin|discriminate].
Qed.

(* whatever the interleaving: the block with an always-bad row yields no root *)
Theorem bad_block_never_a_root : forall bs sched j rows row,
  interleave bs sched -> nth_error bs j = Some rows -> In row rows -> always_bad row ->
  forall st o, block_result j (run_sched st sched) <> BRoot o.
Proof.
  intros bs sched j rows row Hil Hj Hin Hbad st o.
  unfold block_result. apply worker_with_format.
  pose proof (results_of_rows sched st j) as HF.
  rewrite (proj2 (proj1 (interleave_iff bs sched) Hil) j rows Hj) in HF.
  clear - HF Hin Hbad. induction HF as [|r x rows' res' Hx _ IH]; [destruct Hin|].
  destruct Hin as [E|Hin].
  - subst r. destruct Hx as [st' Hx]. rewrite (parse_always_bad st' row Hbad) in Hx. cbn [snd] in Hx. left. exact Hx.
  - right. apply IH. exact Hin.
Qed.

(* composed with the pipeline: if the generate stage fails on the items whose block yields no root,
   a call over a document containing such a row never returns nil, under any schedule *)
Theorem massive_rejects_bad_row : forall bs sched j rows row p s d,
  interleave bs sched -> nth_error bs j = Some rows -> In row rows -> always_bad row ->
  nth_error (p_stages p) 0 = Some d -> In j (p_items p) ->
  (forall i, (forall o, block_result i (run_sched p0 sched) <> BRoot o) -> d_fails d i = true) ->
  reach p s -> st_main s <> Some None.
Proof.
  intros bs sched j rows row p s d Hil Hj Hin Hbad Hd Hitem Hfails Hr Hnil.
  pose proof (nil_return_no_failure p s Hr Hnil 0 d j Hd Hitem) as Hnf.
  rewrite (Hfails j (bad_block_never_a_root bs sched j rows row Hil Hj Hin Hbad p0)) in Hnf. discriminate Hnf.
Qed.

Print Assumptions bad_block_never_a_root.
Print Assumptions massive_rejects_bad_row.
