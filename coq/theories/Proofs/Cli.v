(* Proofs/Cli.v — C16: the CLI is a faithful front end with a truthful exit status. *)
From Coq Require Import List Ascii Arith Bool Lia.
From GT Require Import Base.GoStr Tree.Tree Tree.Gen Tree.Grower Api.Simple Fs.FsModel Fs.Mkdir Fs.Verify Api.Faults Api.Cli
  Proofs.NoPanic Proofs.FsBasic.
Import ListNotations.

Definition fst3 {A B C} (x : A * B * C) : A := fst (fst x).
Definition snd3 {A B C} (x : A * B * C) : B := snd (fst x).
Definition thd3 {A B C} (x : A * B * C) : C := snd x.

(* what the library does for the options the flags map to *)
Definition lib_result (iv : invocation) (doc : str) (f : fsmap) (budget : option nat) : res unit :=
  match i_cmd iv with
  | CmdTemplate => match budget with
                   | None => Ok tt
                   | Some b => if List.length template_doc <=? b then Ok tt else Err EWriter
                   end
  | CmdOutput =>
      let e := match i_format iv with Some (Some e) => e | _ => EncDefault end in
      snd (output_faulty (cli_cfg e false []) doc None budget)
  | CmdMkdir =>
      if i_dry iv then snd (output_faulty (cli_cfg EncDefault true (i_exts iv)) doc None budget)
      else match gen_all doc with
           | Ok ts => snd (mkdir_trees (cli_cfg EncDefault false (i_exts iv)) (i_target iv) f ts)
           | Err e => Err e
           | Panic => Panic
           end
  | CmdVerify =>
      match gen_all doc with
      | Ok ts => verify_trees (cli_cfg EncDefault false []) (i_strict iv) (i_target iv) f ts
      | Err e => Err e
      | Panic => Panic
      end
  end.

Definition usage_ok (iv : invocation) : bool :=
  negb (i_usage_error iv) &&
  match i_cmd iv, i_format iv with CmdOutput, Some None => false | _, _ => true end.

Definition input_ok (iv : invocation) : bool :=
  match i_cmd iv, i_input iv with
  | CmdTemplate, _ => true
  | _, InMissingFile => false
  | _, InGiven => true
  end.

(* exit status 0 iff the usage is valid, the input could be opened and the library returned nil *)
Theorem exit_zero_iff iv doc f budget :
  thd3 (run_cli iv doc f budget) = 0 <->
  usage_ok iv = true /\ input_ok iv = true /\ lib_result iv doc f budget = Ok tt.
Proof.
  unfold run_cli, usage_ok, input_ok, lib_result, thd3.
  destruct (i_usage_error iv); cbn [negb andb]; [split; [discriminate|intros [H _]; discriminate]|].
  destruct (i_cmd iv).
  - destruct (i_format iv) as [[e|]|]; cbn [snd]; try (split; [discriminate|intros [H _]; discriminate]).
    + destruct (i_input iv); cbn [snd]; [|split; [discriminate|intros [_ [H _]]; discriminate]].
      destruct (output_faulty (cli_cfg e false []) doc None budget) as [out r]. cbn [snd code_of].
      destruct r as [[]| |]; cbn; split; auto; try discriminate; intros [_ [_ H]]; discriminate.
    + destruct (i_input iv); cbn [snd]; [|split; [discriminate|intros [_ [H _]]; discriminate]].
      destruct (output_faulty (cli_cfg EncDefault false []) doc None budget) as [out r]. cbn [snd code_of].
      destruct r as [[]| |]; cbn; split; auto; try discriminate; intros [_ [_ H]]; discriminate.
  - destruct (i_input iv); cbn [snd]; [|split; [discriminate|intros [_ [H _]]; discriminate]].
    destruct (i_dry iv).
    + destruct (output_faulty (cli_cfg EncDefault true (i_exts iv)) doc None budget) as [out r]. cbn [snd code_of].
      destruct r as [[]| |]; cbn; split; auto; try discriminate; intros [_ [_ H]]; discriminate.
    + destruct (gen_all doc) as [ts|e|]; cbn [snd]; try (split; [discriminate|intros [_ [_ H]]; discriminate]).
      destruct (mkdir_trees (cli_cfg EncDefault false (i_exts iv)) (i_target iv) f ts) as [[f' cs] r]. cbn [snd code_of].
      destruct r as [[]| |]; cbn; split; auto; try discriminate; intros [_ [_ H]]; discriminate.
  - destruct (i_input iv); cbn [snd]; [|split; [discriminate|intros [_ [H _]]; discriminate]].
    destruct (gen_all doc) as [ts|e|]; cbn [snd]; try (split; [discriminate|intros [_ [_ H]]; discriminate]).
    destruct (verify_trees (cli_cfg EncDefault false []) (i_strict iv) (i_target iv) f ts) as [[]| |]; cbn; split; auto; try discriminate; intros [_ [_ H]]; discriminate.
  - destruct budget as [b|]; cbn [snd]; [|split; auto].
    destruct (List.length template_doc <=? b); cbn; split; auto; try discriminate. intros [_ [_ H]]. discriminate.
Qed.

(* stdout carries exactly the bytes the library wrote for the mapped options *)
Theorem stdout_is_library_output iv doc f budget :
  i_usage_error iv = false -> i_input iv = InGiven ->
  match i_cmd iv with
  | CmdOutput => forall e, i_format iv = Some (Some e) \/ (i_format iv = None /\ e = EncDefault) ->
                 fst3 (run_cli iv doc f budget) = fst (output_faulty (cli_cfg e false []) doc None budget)
  | CmdMkdir => if i_dry iv then fst3 (run_cli iv doc f budget) = fst (output_faulty (cli_cfg EncDefault true (i_exts iv)) doc None budget)
                else fst3 (run_cli iv doc f budget) = []
  | CmdVerify => fst3 (run_cli iv doc f budget) = []
  | CmdTemplate => True
  end.
Proof.
  intros Hu Hi. unfold run_cli, fst3. rewrite Hu, Hi. destruct (i_cmd iv); auto.
  - intros e [H|[H ->]]; rewrite H; destruct (output_faulty _ doc None budget); reflexivity.
  - destruct (i_dry iv).
    + destruct (output_faulty _ doc None budget); reflexivity.
    + destruct (gen_all doc); try reflexivity. destruct (mkdir_trees _ _ f a) as [[f' cs] r]. reflexivity.
  - destruct (gen_all doc); reflexivity.
Qed.

(* file-system effect: the library's for a real mkdir, none otherwise (in particular for --dry-run) *)
Theorem fs_effect iv doc f budget :
  snd3 (run_cli iv doc f budget) =
  match i_cmd iv, i_usage_error iv, i_input iv, i_dry iv, gen_all doc with
  | CmdMkdir, false, InGiven, false, Ok ts => fst (fst (mkdir_trees (cli_cfg EncDefault false (i_exts iv)) (i_target iv) f ts))
  | _, _, _, _, _ => f
  end.
Proof.
  unfold run_cli, snd3. destruct (i_usage_error iv); [destruct (i_cmd iv); reflexivity|].
  destruct (i_cmd iv).
  - destruct (i_format iv) as [[e|]|]; try reflexivity; destruct (i_input iv); try reflexivity;
      destruct (output_faulty _ doc None budget); reflexivity.
  - destruct (i_input iv); [|reflexivity]. destruct (i_dry iv).
    + destruct (output_faulty _ doc None budget); reflexivity.
    + destruct (gen_all doc); try reflexivity. destruct (mkdir_trees _ _ f a) as [[f' cs] r]. reflexivity.
  - destruct (i_input iv); [|reflexivity]. destruct (gen_all doc); reflexivity.
  - destruct budget as [b|]; [destruct (List.length template_doc <=? b)|]; reflexivity.
Qed.

(* the exit status is one of the documented codes, never anything else (never a crash) *)
Ltac inlist := cbn; repeat (first [left; reflexivity | right]); try reflexivity.

Theorem exit_codes iv doc f budget :
  In (thd3 (run_cli iv doc f budget)) [0; exit_usage; exit_open; exit_output; exit_mkdir; exit_verify].
Proof.
  unfold run_cli, thd3. destruct (i_usage_error iv); [inlist|].
  destruct (i_cmd iv).
  - destruct (i_format iv) as [[e|]|]; cbn [snd]; try (inlist; fail);
      destruct (i_input iv); cbn [snd]; try (inlist; fail);
      destruct (output_faulty _ doc None budget) as [o r]; destruct r as [[]| |]; inlist.
  - destruct (i_input iv); cbn [snd]; try (inlist; fail). destruct (i_dry iv).
    + destruct (output_faulty _ doc None budget) as [o r]; destruct r as [[]| |]; inlist.
    + destruct (gen_all doc); cbn [snd]; try (inlist; fail).
      destruct (mkdir_trees _ _ f a) as [[f' cs] r]; destruct r as [[]| |]; inlist.
  - destruct (i_input iv); cbn [snd]; try (inlist; fail).
    destruct (gen_all doc); cbn [snd]; try (inlist; fail).
    destruct (verify_trees _ _ _ f a) as [[]| |]; inlist.
  - destruct budget as [b|]; [destruct (List.length template_doc <=? b)|]; inlist.
Qed.
