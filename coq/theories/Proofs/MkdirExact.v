(* Proofs/MkdirExact.v — C06: a successful mkdir appends exactly the node paths (and the
   missing prefixes of the target directory) to the finite-map file system, with the
   right kinds, in pre-order, and changes nothing else. *)
From Coq Require Import List Ascii Arith Bool Lia.
From GT Require Import Base.GoStr Tree.Tree Tree.Grower Out.Spreader Api.Simple Fs.FsModel Fs.Mkdir Fs.Verify
  Proofs.TreeInd Proofs.GrowRender Proofs.BuildTrie Proofs.Paths Proofs.Programmable Proofs.Walk Proofs.FsBasic.
Import ListNotations.

(* ================= Stage 0: component lists and path strings ================= *)

Definition eok (es : list str) : Prop := Forall (fun e => elem_ok e = true) es.
Definition acc (es : list str) : Prop := Forall (fun e => os_refuses e = false) es.

(* the cleaned relative path spelled by a component list; the empty list is "." *)
Definition pth (es : list str) : str := match es with [] => [c_dot] | _ => join es end.

Lemma eok_app a b : eok (a ++ b) <-> eok a /\ eok b.
Proof. unfold eok. apply Forall_app. Qed.

Lemma acc_app a b : acc (a ++ b) <-> acc a /\ acc b.
Proof. unfold acc. apply Forall_app. Qed.

Lemma eok1 n : elem_ok n = true -> eok [n].
Proof. intros H. constructor; [exact H|constructor]. Qed.

Lemma str_eqb_refl s : str_eqb s s = true.
Proof. apply str_eqb_eq. reflexivity. Qed.

Lemma str_eqb_neq s t : s <> t -> str_eqb s t = false.
Proof. intros H. destruct (str_eqb s t) eqn:E; [apply str_eqb_eq in E; contradiction|reflexivity]. Qed.

Lemma join_not_dot es : eok es -> es <> [] -> is_dot (join es) = false.
Proof.
  intros HF Hne. destruct es as [|e r]; [congruence|]. inversion HF as [|? ? He Hr]; subst.
  destruct r as [|e2 r'].
  - cbn. unfold elem_ok in He. apply andb_true_iff in He as [He _]. apply andb_true_iff in He as [He _].
    apply andb_true_iff in He as [_ He]. apply negb_true_iff in He. exact He.
  - change (join (e :: e2 :: r')) with (e ++ [c_slash] ++ join (e2 :: r')).
    pose proof (elem_ok_nonempty e He) as Hn. destruct e as [|c e']; [congruence|].
    unfold is_dot. cbn [app str_eqb]. destruct e'; cbn; apply andb_false_r.
Qed.

Lemma comps_pth es : eok es -> comps_of (pth es) = es.
Proof.
  intros HF. destruct es as [|e r]; [reflexivity|]. unfold pth, comps_of, is_dot_path.
  rewrite join_not_dot by (auto; discriminate). apply split_join; [discriminate|exact HF].
Qed.

Lemma pth_inj a b : eok a -> eok b -> pth a = pth b -> a = b.
Proof. intros Ha Hb E. rewrite <- (comps_pth a Ha), <- (comps_pth b Hb), E. reflexivity. Qed.

Lemma join2_pth pre c : eok pre -> join2 (pth pre) c = pth (pre ++ [c]).
Proof.
  intros HF. destruct pre as [|e r]; [reflexivity|]. unfold join2, is_dot_path.
  change (pth (e :: r)) with (join (e :: r)). rewrite join_not_dot by (auto; discriminate).
  rewrite <- join_snoc by discriminate. reflexivity.
Qed.

Lemma pth_nonempty es : eok es -> pth es <> [].
Proof. intros HF. destruct es; [discriminate|]. apply join_nonempty; [discriminate|exact HF]. Qed.

Lemma join_app a b : a <> [] -> b <> [] -> join (a ++ b) = join a ++ [c_slash] ++ join b.
Proof.
  induction a as [|x a IH]; intros Ha Hb; [congruence|]. destruct a as [|y a'].
  - destruct b; [congruence|reflexivity].
  - change (join ((x :: y :: a') ++ b)) with (x ++ [c_slash] ++ join ((y :: a') ++ b)).
    rewrite IH by (auto; discriminate).
    change (join (x :: y :: a')) with (x ++ [c_slash] ++ join (y :: a')). rewrite <- !app_assoc. reflexivity.
Qed.

Lemma dirname_pth es c : eok (es ++ [c]) -> dirname (pth (es ++ [c])) = pth es.
Proof.
  intros HF. unfold dirname. rewrite comps_pth by exact HF. rewrite frev_rev, rev_app_distr. cbn [rev app].
  rewrite frev_rev, rev_involutive. destruct es; reflexivity.
Qed.

Lemma basename_pth es c : eok (es ++ [c]) -> basename (pth (es ++ [c])) = c.
Proof.
  intros HF. unfold basename. rewrite comps_pth by exact HF. rewrite frev_rev, rev_app_distr. reflexivity.
Qed.

(* ---- path.Clean on strings whose elements are valid, empty or "." ---- *)
Definition soft (e : str) : Prop := elem_ok e = true \/ e = [] \/ e = [c_dot].

Lemma clean_elems_soft rooted : forall es stk,
  Forall soft es -> clean_elems rooted es stk = rev stk ++ filter elem_ok es.
Proof.
  induction es as [|e es IH]; intros stk HF; cbn [clean_elems filter].
  - rewrite frev_rev, app_nil_r. reflexivity.
  - inversion HF as [|? ? He Hes]; subst. destruct He as [He|[He|He]].
    + rewrite He. unfold elem_ok in He.
      apply andb_true_iff in He as [He H4]. apply andb_true_iff in He as [He H3]. apply andb_true_iff in He as [H1 H2].
      destruct e as [|c e']; [discriminate|].
      apply negb_true_iff in H2. apply negb_true_iff in H3. rewrite H2, H3.
      rewrite IH by exact Hes. cbn [rev]. rewrite <- app_assoc. reflexivity.
    + subst e. cbn. apply IH. exact Hes.
    + subst e. cbn. apply IH. exact Hes.
Qed.

Lemma filter_eok es : eok es -> filter elem_ok es = es.
Proof. induction 1 as [|e es He _ IH]; [reflexivity|]. cbn [filter]. rewrite He, IH. reflexivity. Qed.

Lemma eok_filter es : eok (filter elem_ok es).
Proof.
  induction es as [|e es IH]; cbn [filter]; [constructor|]. destruct (elem_ok e) eqn:E; [constructor; assumption|exact IH].
Qed.

Lemma path_clean_soft s c r :
  s = c :: r -> Ascii.eqb c c_slash = false -> Forall soft (split_on c_slash s) ->
  path_clean s = pth (filter elem_ok (split_on c_slash s)).
Proof.
  intros E Hc HF. unfold path_clean. rewrite E, Hc. rewrite <- E.
  rewrite clean_elems_soft by exact HF. cbn [rev app]. fold (join (filter elem_ok (split_on c_slash s))).
  pose proof (eok_filter (split_on c_slash s)) as Hk.
  destruct (filter elem_ok (split_on c_slash s)) as [|e l] eqn:F; [reflexivity|].
  cbn [pth]. pose proof (join_nonempty (e :: l) ltac:(discriminate) Hk) as Hn.
  destruct (join (e :: l)); [congruence|reflexivity].
Qed.

(* the elements of the target as they appear when splitting: "." for the empty list *)
Definition lead (tc : list str) : list str := match tc with [] => [[c_dot]] | _ => tc end.

Lemma split_noslash_app : forall es rest,
  es <> [] -> Forall (fun e => contains c_slash e = false) es ->
  split_on c_slash (join es ++ c_slash :: rest) = es ++ split_on c_slash rest.
Proof.
  induction es as [|e es IH]; intros rest Hne HF; [congruence|].
  inversion HF as [|? ? He Hes]; subst. destruct es as [|e2 es'].
  - cbn [join join_with app]. apply split_on_app. exact He.
  - change (join (e :: e2 :: es')) with (e ++ [c_slash] ++ join (e2 :: es')).
    rewrite <- !app_assoc. cbn [app]. rewrite split_on_app by exact He.
    rewrite IH by (auto; discriminate). reflexivity.
Qed.

Lemma pth_lead tc : pth tc = join (lead tc).
Proof. destruct tc; reflexivity. Qed.

Lemma lead_noslash tc : eok tc -> Forall (fun e => contains c_slash e = false) (lead tc).
Proof.
  intros HF. destruct tc as [|e r]; cbn [lead].
  - constructor; [reflexivity|constructor].
  - eapply Forall_impl; [|exact HF]. intros a. apply elem_ok_noslash.
Qed.

Lemma lead_soft tc : eok tc -> Forall soft (lead tc).
Proof.
  intros HF. destruct tc as [|e r]; cbn [lead].
  - constructor; [right; right; reflexivity|constructor].
  - eapply Forall_impl; [|exact HF]. intros a Ha. left. exact Ha.
Qed.

Lemma lead_filter tc : eok tc -> filter elem_ok (lead tc) = tc.
Proof. intros HF. destruct tc as [|e r]; [reflexivity|]. apply filter_eok. exact HF. Qed.

Lemma pth_head tc : eok tc -> exists c r, pth tc = c :: r /\ Ascii.eqb c c_slash = false.
Proof.
  intros HF. destruct tc as [|e l]; [exists c_dot, []; split; reflexivity|].
  apply join_head_not_slash; [discriminate|exact HF].
Qed.

Lemma filter_app_ {A} (p : A -> bool) l1 l2 : filter p (l1 ++ l2) = filter p l1 ++ filter p l2.
Proof. induction l1 as [|a l1 IH]; [reflexivity|]. cbn [app filter]. destruct (p a); cbn [app]; rewrite IH; reflexivity. Qed.

(* filepath.Join(target, y) for a target spelled by components *)
Lemma tjoin_gen tc y :
  eok tc -> y <> [] -> Forall soft (split_on c_slash y) ->
  tjoin (pth tc) y = pth (tc ++ filter elem_ok (split_on c_slash y)).
Proof.
  intros Htc Hy Hs. unfold tjoin, path_join. cbn [filter].
  rewrite (nonempty_true _ (pth_nonempty tc Htc)), (nonempty_true _ Hy).
  change (join_with [c_slash] [pth tc; y]) with (pth tc ++ [c_slash] ++ y).
  destruct (pth_head tc Htc) as [c [r [E Hc]]].
  assert (Hsp : split_on c_slash (pth tc ++ [c_slash] ++ y) = lead tc ++ split_on c_slash y).
  { rewrite pth_lead. cbn [app]. apply split_noslash_app; [destruct tc; discriminate|apply lead_noslash; exact Htc]. }
  rewrite (path_clean_soft _ c (r ++ [c_slash] ++ y)).
  - rewrite Hsp, filter_app_, lead_filter by exact Htc. reflexivity.
  - rewrite E. reflexivity.
  - exact Hc.
  - rewrite Hsp. apply Forall_app. split; [apply lead_soft; exact Htc|exact Hs].
Qed.

Lemma tjoin_names tc names :
  eok tc -> eok names -> names <> [] -> tjoin (pth tc) (join names) = pth (tc ++ names).
Proof.
  intros Htc Hn Hne. rewrite tjoin_gen; [| exact Htc | apply join_nonempty; assumption |].
  - rewrite split_join by assumption. rewrite filter_eok by exact Hn. reflexivity.
  - rewrite split_join by assumption. eapply Forall_impl; [|exact Hn]. intros a Ha. left. exact Ha.
Qed.

Lemma tjoin_trail tc pre :
  eok tc -> eok pre -> pre <> [] -> tjoin (pth tc) (join pre ++ [c_slash]) = pth (tc ++ pre).
Proof.
  intros Htc Hn Hne.
  assert (Hsp : split_on c_slash (join pre ++ [c_slash]) = pre ++ [[]]).
  { rewrite split_noslash_app; [reflexivity|exact Hne|]. eapply Forall_impl; [|exact Hn]. intros a. apply elem_ok_noslash. }
  rewrite tjoin_gen; [| exact Htc | destruct (join pre); discriminate |].
  - rewrite Hsp, filter_app_, filter_eok by exact Hn. cbn. rewrite app_nil_r. reflexivity.
  - rewrite Hsp. apply Forall_app. split.
    + eapply Forall_impl; [|exact Hn]. intros a Ha. left. exact Ha.
    + constructor; [right; left; reflexivity|constructor].
Qed.

Lemma tjoin_empty tc : eok tc -> tjoin (pth tc) [] = pth tc.
Proof.
  intros Htc. unfold tjoin, path_join. cbn [filter nonempty].
  rewrite (nonempty_true _ (pth_nonempty tc Htc)). cbn [join_with].
  destruct tc as [|e l]; [reflexivity|]. apply clean_join; [discriminate|exact Htc].
Qed.

(* strings.TrimSuffix *)
Lemma has_prefix_app x y : has_prefix x (x ++ y) = true.
Proof. induction x as [|c x IH]; [reflexivity|]. cbn. rewrite Ascii.eqb_refl. exact IH. Qed.

Lemma trim_suffix_app a n : trim_suffix (a ++ n) n = a.
Proof.
  unfold trim_suffix, has_suffix. rewrite !frev_rev, rev_app_distr, has_prefix_app.
  rewrite app_length. replace (List.length a + List.length n - List.length n) with (List.length a) by lia.
  rewrite firstn_app, firstn_all, Nat.sub_diag. cbn. apply app_nil_r.
Qed.

(* the directory a file leaf's MkdirAll is called on, and the leaf's own path *)
Lemma tjoin_parent tc pre n :
  eok tc -> eok pre -> tjoin (pth tc) (trim_suffix (join (pre ++ [n])) n) = pth (tc ++ pre).
Proof.
  intros Htc Hp. destruct pre as [|e r].
  - cbn [app join join_with]. change n with ([] ++ n) at 1. rewrite trim_suffix_app, app_nil_r. apply tjoin_empty. exact Htc.
  - rewrite join_snoc by discriminate. rewrite app_assoc, trim_suffix_app. apply tjoin_trail; [assumption|assumption|discriminate].
Qed.

Lemma tjoin_node tc pre n :
  eok tc -> eok pre -> elem_ok n = true -> tjoin (pth tc) (join (pre ++ [n])) = pth (tc ++ pre ++ [n]).
Proof.
  intros Htc Hp Hn. apply tjoin_names; [exact Htc| |destruct pre; discriminate].
  apply eok_app. split; [exact Hp|apply eok1; exact Hn].
Qed.

(* ================= Stage 1: the primitives on component lists ================= *)

Lemma lookup_app p f A :
  lookup p (f ++ A) = match lookup p f with Some k => Some k | None => lookup p A end.
Proof.
  induction f as [|[q k] r IH]; [reflexivity|]. cbn [app lookup]. destruct (str_eqb p q); [reflexivity|exact IH].
Qed.

Lemma lookup_none_notin p A : lookup p A = None <-> ~ In p (map fst A).
Proof.
  induction A as [|[q k] r IH]; cbn [lookup map fst In]; [tauto|].
  destruct (str_eqb p q) eqn:E.
  - apply str_eqb_eq in E. subst. split; [discriminate|intros H; exfalso; apply H; left; reflexivity].
  - rewrite IH. split; [intros H [X|X]; [subst; rewrite str_eqb_refl in E; discriminate|auto]|tauto].
Qed.

Lemma lookup_in p k A : lookup p A = Some k -> In (p, k) A.
Proof.
  induction A as [|[q k'] r IH]; cbn [lookup]; [discriminate|]. destruct (str_eqb p q) eqn:E.
  - apply str_eqb_eq in E. subst. intros H. inversion H; subst. left. reflexivity.
  - intros H. right. apply IH. exact H.
Qed.

Lemma lookup_app_far p f A : ~ In p (map fst A) -> lookup p (f ++ A) = lookup p f.
Proof. intros H. rewrite lookup_app. apply lookup_none_notin in H. rewrite H. destruct (lookup p f); reflexivity. Qed.

Lemma set_kind_none p k f : lookup p f = None -> set_kind p k f = f ++ [(p, k)].
Proof.
  induction f as [|[q k'] r IH]; cbn [lookup set_kind app]; [reflexivity|].
  destruct (str_eqb p q); [discriminate|]. intros H. rewrite IH by exact H. reflexivity.
Qed.

Definition pfx (a cs : list str) : Prop := exists b, cs = a ++ b.

Lemma pfx_eok pre cs a : eok (pre ++ cs) -> pfx a cs -> eok (pre ++ a).
Proof.
  intros H [b E]. subst. apply eok_app in H as [H1 H2]. apply eok_app in H2 as [H2 _]. apply eok_app. auto.
Qed.

Lemma pfx_cons c a rest : pfx a rest -> pfx (c :: a) (c :: rest).
Proof. intros [b E]. exists b. subst. reflexivity. Qed.

Lemma pfx_one c rest : pfx [c] (c :: rest).
Proof. exists rest. reflexivity. Qed.

Lemma pfx_cons_inv a c rest : pfx a (c :: rest) -> a <> [] -> exists a', a = c :: a' /\ pfx a' rest.
Proof.
  intros [b E] Hne. destruct a as [|x a']; [congruence|]. cbn [app] in E. inversion E; subst.
  exists a'. split; [reflexivity|exists b; reflexivity].
Qed.

(* every non-empty prefix of pre++cs beyond pre is a directory / a directory or absent *)
Definition all_dirs (f : fsmap) (pre cs : list str) : Prop :=
  forall a, pfx a cs -> a <> [] -> lookup (pth (pre ++ a)) f = Some KDir.
Definition dirs_or_none (f : fsmap) (pre cs : list str) : Prop :=
  forall a, pfx a cs -> a <> [] ->
    lookup (pth (pre ++ a)) f = Some KDir \/ lookup (pth (pre ++ a)) f = None.

Lemma all_dirs_weaken f pre cs : all_dirs f pre cs -> dirs_or_none f pre cs.
Proof. intros H a Ha Hne. left. apply H; assumption. Qed.

Lemma all_dirs_tail f pre c rest : all_dirs f pre (c :: rest) -> all_dirs f (pre ++ [c]) rest.
Proof. intros H a Ha Hne. rewrite <- app_assoc. apply H; [apply pfx_cons; exact Ha|discriminate]. Qed.

Lemma dirs_or_none_tail f pre c rest : dirs_or_none f pre (c :: rest) -> dirs_or_none f (pre ++ [c]) rest.
Proof. intros H a Ha Hne. rewrite <- app_assoc. apply H; [apply pfx_cons; exact Ha|discriminate]. Qed.

Lemma all_dirs_app_r f A pre cs : all_dirs f pre cs -> all_dirs (f ++ A) pre cs.
Proof. intros H a Ha Hne. apply lookup_app_some. apply H; assumption. Qed.

(* the entries MkdirAll appends: the absent prefixes, top-down *)
Fixpoint miss (f : fsmap) (pre cs : list str) : fsmap :=
  match cs with
  | [] => []
  | c :: rest =>
      (match lookup (pth (pre ++ [c])) f with None => [(pth (pre ++ [c]), KDir)] | Some _ => [] end)
      ++ miss f (pre ++ [c]) rest
  end.

Lemma miss_ext f f' : forall cs pre,
  (forall a, pfx a cs -> a <> [] -> lookup (pth (pre ++ a)) f' = lookup (pth (pre ++ a)) f) ->
  miss f' pre cs = miss f pre cs.
Proof.
  induction cs as [|c rest IH]; intros pre H; [reflexivity|]. cbn [miss].
  rewrite (H [c] (pfx_one c rest)) by discriminate. f_equal.
  apply IH. intros a Ha Hne. rewrite <- app_assoc. apply H; [apply pfx_cons; exact Ha|discriminate].
Qed.

Lemma miss_app f : forall a pre b, miss f pre (a ++ b) = miss f pre a ++ miss f (pre ++ a) b.
Proof.
  induction a as [|c a IH]; intros pre b; [rewrite app_nil_r; reflexivity|].
  cbn [app miss]. rewrite IH, <- !app_assoc. reflexivity.
Qed.

Lemma miss_all_dirs f : forall cs pre, all_dirs f pre cs -> miss f pre cs = [].
Proof.
  induction cs as [|c rest IH]; intros pre H; [reflexivity|]. cbn [miss].
  rewrite (H [c] (pfx_one c rest)) by discriminate. cbn [app]. apply IH. apply all_dirs_tail. exact H.
Qed.

Lemma miss_keys f : forall cs pre p k,
  In (p, k) (miss f pre cs) ->
  exists a, pfx a cs /\ a <> [] /\ p = pth (pre ++ a) /\ k = KDir /\ lookup p f = None.
Proof.
  induction cs as [|c rest IH]; intros pre p k H; [destruct H|]. cbn [miss] in H. apply in_app_or in H as [H|H].
  - destruct (lookup (pth (pre ++ [c])) f) eqn:L; [destruct H|]. destruct H as [H|[]]. inversion H; subst.
    exists [c]. repeat split; [apply pfx_one|discriminate|exact L].
  - destruct (IH _ _ _ H) as [a [H1 [H2 [H3 [H4 H5]]]]]. exists (c :: a).
    repeat split; [apply pfx_cons; exact H1|discriminate|rewrite H3, <- app_assoc; reflexivity|exact H4|exact H5].
Qed.

(* os.MkdirAll: when no prefix is a file and no component is refused it succeeds and
   appends exactly the absent prefixes *)
Lemma mkdir_all_from_spec : forall cs f pre,
  eok (pre ++ cs) -> acc cs -> dirs_or_none f pre cs ->
  mkdir_all_from f (pth pre) cs = (f ++ miss f pre cs, true).
Proof.
  induction cs as [|c rest IH]; intros f pre He Ha Hd.
  - cbn. rewrite app_nil_r. reflexivity.
  - assert (Hpre : eok pre) by (apply eok_app in He; tauto).
    assert (He' : eok ((pre ++ [c]) ++ rest)) by (rewrite <- app_assoc; exact He).
    inversion Ha as [|? ? Hc Hrest]; subst.
    cbn [mkdir_all_from miss]. rewrite join2_pth by exact Hpre. rewrite Hc.
    destruct (Hd [c] (pfx_one c rest) ltac:(discriminate)) as [L|L]; rewrite L.
    + cbn [app]. apply IH; [exact He'|exact Hrest|apply dirs_or_none_tail; exact Hd].
    + rewrite IH; [|exact He'|exact Hrest|].
      * rewrite <- app_assoc. f_equal. f_equal. f_equal. apply miss_ext. intros a Ha' Hne.
        apply lookup_app_far. cbn [map fst In]. intros [X|[]].
        apply pth_inj in X; [|eapply pfx_eok; [exact He|exists rest; reflexivity]|eapply pfx_eok; [exact He'|exact Ha']].
        rewrite <- (app_nil_r (pre ++ [c])) in X at 1. apply app_inv_head in X. congruence.
      * intros a Ha' Hne. rewrite lookup_app.
        destruct (dirs_or_none_tail _ _ _ _ Hd a Ha' Hne) as [L2|L2]; rewrite L2; [left; reflexivity|].
        cbn [lookup]. destruct (str_eqb _ _); auto.
Qed.

Lemma mkdir_all_from_stat : forall cs f cur f',
  mkdir_all_from f cur cs = (f', true) -> stat_from f' cur cs = StDir.
Proof.
  induction cs as [|c rest IH]; intros f cur f' H; [reflexivity|]. cbn [mkdir_all_from] in H. cbn [stat_from].
  destruct (os_refuses c); [inversion H|].
  destruct (lookup (join2 cur c) f) as [[|e]|] eqn:L; [| inversion H |].
  - rewrite (mkdir_all_from_keeps _ _ _ _ _ _ _ H L). eapply IH. exact H.
  - assert (L1 : lookup (join2 cur c) (f ++ [(join2 cur c, KDir)]) = Some KDir).
    { rewrite lookup_app, L. cbn. rewrite str_eqb_refl. reflexivity. }
    rewrite (mkdir_all_from_keeps _ _ _ _ _ _ _ H L1). eapply IH. exact H.
Qed.

(* os.Stat in terms of lookups along the prefixes *)
Lemma stat_dir_inv : forall cs f pre,
  eok (pre ++ cs) -> stat_from f (pth pre) cs = StDir -> all_dirs f pre cs.
Proof.
  induction cs as [|c rest IH]; intros f pre He H a Ha Hne.
  - destruct Ha as [b E]. destruct a; [congruence|discriminate].
  - assert (Hp : eok pre) by (apply eok_app in He; tauto).
    cbn [stat_from] in H. rewrite join2_pth in H by exact Hp.
    destruct (os_refuses c); [discriminate|].
    destruct (pfx_cons_inv _ _ _ Ha Hne) as [a' [-> Ha']].
    destruct (lookup (pth (pre ++ [c])) f) as [[|e]|] eqn:L; [|destruct rest; discriminate|discriminate].
    destruct a' as [|x a''].
    + exact L.
    + change (pre ++ c :: x :: a'') with (pre ++ [c] ++ x :: a''). rewrite app_assoc.
      apply (IH f (pre ++ [c])); [rewrite <- app_assoc; exact He | exact H | exact Ha' | discriminate].
Qed.

Lemma stat_none : forall cs f pre r,
  eok (pre ++ cs) -> acc (cs ++ [r]) -> dirs_or_none f pre cs ->
  lookup (pth (pre ++ cs ++ [r])) f = None ->
  stat_from f (pth pre) (cs ++ [r]) = StNone.
Proof.
  induction cs as [|c rest IH]; intros f pre r He Ha Hd L.
  - assert (Hp : eok pre) by (apply eok_app in He; tauto).
    inversion Ha as [|? ? Hc _]; subst. cbn [app stat_from]. rewrite Hc, join2_pth by exact Hp.
    cbn [app] in L. rewrite L. reflexivity.
  - assert (Hp : eok pre) by (apply eok_app in He; tauto).
    inversion Ha as [|? ? Hc Hrest]; subst. cbn [app stat_from]. rewrite Hc, join2_pth by exact Hp.
    destruct (Hd [c] (pfx_one c rest) ltac:(discriminate)) as [L1|L1]; rewrite L1; [|reflexivity].
    apply IH; [rewrite <- app_assoc; exact He|exact Hrest|apply dirs_or_none_tail; exact Hd|].
    rewrite <- app_assoc. exact L.
Qed.

(* ---- os.Stat rejects a path containing NUL before looking at the file system ---- *)
Lemma contains_app c a b : contains c (a ++ b) = contains c a || contains c b.
Proof. unfold contains. apply existsb_app. Qed.

Lemma stat_no_nul f p : contains (ch 0) p = false -> stat f p = stat_from f [c_dot] (comps_of p).
Proof. intros H. unfold stat. rewrite H. reflexivity. Qed.

Lemma stat_nul f p : contains (ch 0) p = true -> stat f p = StErr.
Proof. intros H. unfold stat. rewrite H. reflexivity. Qed.

(* any answer other than an error was computed by the walk *)
Lemma stat_inv f p s : stat f p = s -> s <> StErr -> stat_from f [c_dot] (comps_of p) = s.
Proof. unfold stat. destruct (contains (ch 0) p); [congruence|auto]. Qed.

Lemma acc_no_nul e : os_refuses e = false -> contains (ch 0) e = false.
Proof. unfold os_refuses. intros H. apply orb_false_iff in H. tauto. Qed.

Lemma no_nul_join : forall es,
  Forall (fun e => contains (ch 0) e = false) es -> contains (ch 0) (join es) = false.
Proof.
  induction es as [|e es IH]; intros HF; [reflexivity|]. inversion HF as [|? ? He Hes]; subst.
  destruct es as [|e2 es'].
  - cbn [join join_with]. exact He.
  - change (join (e :: e2 :: es')) with (e ++ [c_slash] ++ join (e2 :: es')).
    rewrite !contains_app, He, (IH Hes). reflexivity.
Qed.

(* a path whose components the OS accepts contains no NUL *)
Lemma no_nul_pth es : acc es -> contains (ch 0) (pth es) = false.
Proof.
  intros Ha. destruct es as [|e r]; [reflexivity|]. unfold pth. apply no_nul_join.
  eapply Forall_impl; [|exact Ha]. intros a. apply acc_no_nul.
Qed.

Lemma stat_pth f es : eok es -> acc es -> stat f (pth es) = stat_from f [c_dot] es.
Proof. intros He Ha. rewrite stat_no_nul by (apply no_nul_pth; exact Ha). rewrite comps_pth by exact He. reflexivity. Qed.

(* a walk that ends on a directory met no refused component *)
Lemma stat_from_dir_acc : forall cs f cur, stat_from f cur cs = StDir -> acc cs.
Proof.
  induction cs as [|c rest IH]; intros f cur H; [constructor|]. cbn [stat_from] in H.
  destruct (os_refuses c) eqn:R; [discriminate|].
  destruct (lookup (join2 cur c) f) as [[|e]|]; [|destruct rest; discriminate|discriminate].
  constructor; [exact R|eapply IH; exact H].
Qed.

(* os.Create of an absent name in an existing directory appends an empty file *)
Lemma create_spec f anc n :
  eok (anc ++ [n]) -> os_refuses n = false ->
  stat_from f [c_dot] anc = StDir -> lookup (pth (anc ++ [n])) f = None ->
  create f (pth (anc ++ [n])) = (f ++ [(pth (anc ++ [n]), KFile true)], true).
Proof.
  intros He Hn Hs L. unfold create. rewrite dirname_pth by exact He.
  assert (Ha : eok anc) by (apply eok_app in He; tauto).
  rewrite (stat_pth f anc Ha (stat_from_dir_acc _ _ _ Hs)). rewrite Hs.
  rewrite basename_pth by exact He. rewrite Hn, L. rewrite set_kind_none by exact L. reflexivity.
Qed.

Lemma acc1 n : os_refuses n = false -> acc [n].
Proof. intros H. constructor; [exact H|constructor]. Qed.

Ltac eo := repeat (first [apply eok_app; split | apply acc_app; split]); auto using eok1, acc1.

Lemma pfx_snoc a cs r : pfx a (cs ++ [r]) -> pfx a cs \/ a = cs ++ [r].
Proof.
  intros [bb E]. destruct bb as [|x b' _] using rev_ind.
  - right. rewrite app_nil_r in E. auto.
  - left. rewrite app_assoc in E. apply app_inj_tail in E as [E _]. exists b'. exact E.
Qed.

Lemma pfx_length a cs : pfx a cs -> List.length a <= List.length cs.
Proof. intros [b E]. subst. rewrite app_length. lia. Qed.

(* nothing exists at or below the component list cs *)
Definition below (f : fsmap) (cs : list str) : Prop :=
  forall m, eok m -> lookup (pth (cs ++ m)) f = None.

Lemma dirs_or_none_snoc f cs r : dirs_or_none f [] cs -> below f (cs ++ [r]) -> dirs_or_none f [] (cs ++ [r]).
Proof.
  intros Hd Hb a Ha Hne. destruct (pfx_snoc _ _ _ Ha) as [H|H]; [apply Hd; assumption|].
  subst a. right. cbn [app]. rewrite <- (app_nil_r (cs ++ [r])). apply Hb. constructor.
Qed.

Lemma after_miss f cs : eok cs -> acc cs -> dirs_or_none f [] cs -> all_dirs (f ++ miss f [] cs) [] cs.
Proof.
  intros He Ha Hd. apply stat_dir_inv; [exact He|].
  eapply mkdir_all_from_stat. apply (mkdir_all_from_spec cs f []); assumption.
Qed.

(* ================= Stage 2: grown trees and their entries ================= *)

(* a grown node below the ancestors pre (names from its root down): valid accepted names,
   distinct siblings, and the path is the joined names *)
Inductive wf_g : list str -> gtree -> Prop :=
| wf_G pre n b p ks :
    elem_ok n = true -> os_refuses n = false -> p = join (pre ++ [n]) ->
    NoDup (map gname ks) -> Forall (wf_g (pre ++ [n])) ks -> wf_g pre (G n b p ks).

Fixpoint gnodes (g : gtree) {struct g} : list gtree :=
  match g with G _ _ _ ks => g :: flat_map gnodes ks end.

Lemma gnodes_eq n b p ks : gnodes (G n b p ks) = G n b p ks :: flat_map gnodes ks.
Proof. reflexivity. Qed.

Lemma gnodes_gpre : forall g d, map snd (gpre d g) = gnodes g.
Proof.
  induction g as [n b p ks IH] using gtree_ind'. intros d. rewrite gpre_eq, gnodes_eq. cbn [map snd]. f_equal.
  generalize (S d) as d'. intros d'. induction ks as [|k r IHr]; [reflexivity|].
  inversion IH as [|? ? Hk Hr]; subst. cbn [flat_map]. rewrite map_app, Hk, (IHr Hr). reflexivity.
Qed.

Definition kind_of (exts : list str) (g : gtree) : kind := if is_file exts g then KFile true else KDir.

(* what mkdir appends for one root: one entry per node, in pre-order *)
Definition entries (exts : list str) (target : str) (g : gtree) : fsmap :=
  map (fun x => (tjoin target (gpath x), kind_of exts x)) (gnodes g).

Lemma entries_eq exts target n b p ks :
  entries exts target (G n b p ks) =
  (tjoin target p, kind_of exts (G n b p ks)) :: flat_map (entries exts target) ks.
Proof.
  unfold entries. rewrite gnodes_eq. cbn [map gpath]. f_equal.
  induction ks as [|k r IH]; [reflexivity|]. cbn [flat_map]. rewrite map_app, IH. reflexivity.
Qed.

Lemma make_node_eq exts target f n b p ks :
  make_node exts target f (G n b p ks) =
  if is_file exts (G n b p ks) then
    let '(f1, ok) := mkdir_all f (tjoin target (trim_suffix p n)) in
    if ok then create f1 (tjoin target p) else (f1, false)
  else match ks with
       | [] => mkdir_all f (tjoin target p)
       | _ => make_roots exts target f ks
       end.
Proof.
  assert (E : forall l f0,
    (fix go (l : list gtree) (f : fsmap) : fsmap * bool :=
       match l with
       | [] => (f, true)
       | k :: r => let '(f1, ok) := make_node exts target f k in if ok then go r f1 else (f1, false)
       end) l f0 = make_roots exts target f0 l).
  { induction l as [|x l IH]; intros f0; [reflexivity|]. cbn [make_roots].
    destruct (make_node exts target f0 x) as [f1 ok]. destruct ok; [apply IH|reflexivity]. }
  cbn [make_node]. destruct (is_file exts (G n b p ks)); [reflexivity|].
  destruct ks as [|k r]; [reflexivity|]. cbn [make_roots].
  destruct (make_node exts target f k) as [f1 ok]. destruct ok; [apply E|reflexivity].
Qed.

Lemma wf_g_name pre g : wf_g pre g -> elem_ok (gname g) = true /\ os_refuses (gname g) = false.
Proof. intros H. inversion H; subst. auto. Qed.

(* every entry of a root lies at or below the root's own path *)
Lemma entries_keys exts tc : eok tc -> forall g pre, wf_g pre g -> eok pre ->
  forall p k, In (p, k) (entries exts (pth tc) g) ->
  exists m, eok m /\ p = pth (tc ++ pre ++ [gname g] ++ m).
Proof.
  intros Htc. induction g as [n b p0 ks IH] using gtree_ind'. intros pre Hw Hp p k Hin.
  inversion Hw as [? ? ? ? ? Hn Hr Hpath Hnd Hks]; subst. cbn [gname].
  rewrite entries_eq in Hin. destruct Hin as [Hin|Hin].
  - inversion Hin; subst. exists []. split; [constructor|]. rewrite app_nil_r. apply tjoin_node; assumption.
  - apply in_flat_map in Hin as [x [Hx Hin]]. rewrite Forall_forall in IH, Hks.
    destruct (IH x Hx (pre ++ [n]) (Hks x Hx) ltac:(eo) p k Hin) as [m [Hm E]].
    exists (gname x :: m). split; [constructor; [apply (wf_g_name _ _ (Hks x Hx))|exact Hm]|].
    rewrite E. rewrite <- !app_assoc. reflexivity.
Qed.

(* ================= Stage 3: makeDirectoriesAndFiles appends exactly the entries ================= *)

Section MakeNode.
Variable exts : list str.
Variable tc : list str.
Hypothesis Htc : eok tc.
Hypothesis Atc : acc tc.

(* one node below the ancestors pre: when no prefix of the parent directory is a file and
   nothing exists at or below the node's path, make_node succeeds and appends the absent
   prefixes of the parent directory followed by the node's entries *)
Definition node_spec (pre : list str) (g : gtree) : Prop :=
  forall f, dirs_or_none f [] (tc ++ pre) -> below f (tc ++ pre ++ [gname g]) ->
    make_node exts (pth tc) f g = (f ++ miss f [] (tc ++ pre) ++ entries exts (pth tc) g, true).

Lemma miss_key_short f cs p k m r :
  In (p, k) (miss f [] cs) -> eok (cs ++ r :: m) -> p <> pth (cs ++ r :: m).
Proof.
  intros Hin He E. destruct (miss_keys _ _ _ _ _ Hin) as [a [Ha [_ [Hp _]]]]. cbn [app] in Hp. rewrite Hp in E. clear Hp.
  apply pth_inj in E; [| |exact He].
  - apply pfx_length in Ha. apply (f_equal (@List.length str)) in E. rewrite app_length in E. cbn in E. lia.
  - apply (pfx_eok [] cs a); [|exact Ha]. apply eok_app in He. tauto.
Qed.

Lemma list_spec pre : eok pre -> acc pre -> forall l,
  Forall (node_spec pre) l -> Forall (wf_g pre) l -> NoDup (map gname l) ->
  forall f, dirs_or_none f [] (tc ++ pre) -> (forall g, In g l -> below f (tc ++ pre ++ [gname g])) ->
  make_roots exts (pth tc) f l =
  (f ++ (match l with [] => [] | _ => miss f [] (tc ++ pre) end) ++ flat_map (entries exts (pth tc)) l, true).
Proof.
  intros Hp Ap. induction l as [|g rest IH]; intros Hs Hw Hnd f Hd Hb.
  - cbn. rewrite app_nil_r. reflexivity.
  - inversion Hs as [|? ? Hg Hrest]; subst. inversion Hw as [|? ? Wg Wrest]; subst.
    cbn [map] in Hnd. inversion Hnd as [|? ? Hnot Hnd']; subst.
    cbn [make_roots]. rewrite (Hg f Hd (Hb g (or_introl eq_refl))).
    destruct rest as [|g2 rest'].
    + cbn [make_roots flat_map]. rewrite app_nil_r. reflexivity.
    + set (f1 := f ++ miss f [] (tc ++ pre) ++ entries exts (pth tc) g).
      assert (Hall : all_dirs f1 [] (tc ++ pre)).
      { unfold f1. rewrite app_assoc. apply all_dirs_app_r. apply after_miss; [eo|eo|exact Hd]. }
      rewrite (IH Hrest Wrest Hnd' f1).
      * rewrite (miss_all_dirs _ _ _ Hall). unfold f1. cbn [app flat_map]. rewrite <- !app_assoc. reflexivity.
      * apply all_dirs_weaken. exact Hall.
      * intros g' Hin m Hm. destruct (wf_g_name _ _ (proj1 (Forall_forall _ _) Wrest g' Hin)) as [Hn' Hr'].
        assert (He : eok ((tc ++ pre) ++ gname g' :: m)) by (eo; constructor; assumption).
        unfold f1. rewrite lookup_app. rewrite (Hb g' (or_intror Hin) m Hm).
        apply lookup_none_notin. intros X. apply in_map_iff in X as [[p k] [Ep Hin']]. cbn [fst] in Ep. subst p.
        apply in_app_or in Hin' as [Hin'|Hin'].
        -- eapply miss_key_short; [exact Hin'|exact He|]. rewrite <- !app_assoc. reflexivity.
        -- destruct (entries_keys exts tc Htc g pre Wg Hp _ _ Hin') as [m' [Hm' E]].
           apply pth_inj in E.
           ++ rewrite <- !app_assoc in E. apply app_inv_head in E. apply app_inv_head in E. cbn [app] in E. inversion E as [[E1 E2]].
              apply Hnot. rewrite <- E1. apply in_map. exact Hin.
           ++ rewrite <- !app_assoc. rewrite <- app_assoc in He. exact He.
           ++ destruct (wf_g_name _ _ Wg). eo.
Qed.

Lemma node_ok : forall g pre, wf_g pre g -> eok pre -> acc pre -> node_spec pre g.
Proof.
  induction g as [n b p ks IH] using gtree_ind'. intros pre Hw Hp Ap f Hd Hb.
  inversion Hw as [? ? ? ? ? Hn Hr Hpath Hnd Hks]; subst. cbn [gname] in Hb.
  assert (Hroot : lookup (pth (tc ++ pre ++ [n])) f = None).
  { rewrite <- (app_nil_r (tc ++ pre ++ [n])). apply Hb. constructor. }
  assert (Hd' : dirs_or_none f [] (tc ++ pre ++ [n])).
  { rewrite app_assoc. apply dirs_or_none_snoc; [exact Hd|]. rewrite <- app_assoc. exact Hb. }
  assert (Hmiss : miss f [] (tc ++ pre ++ [n]) = miss f [] (tc ++ pre) ++ [(pth (tc ++ pre ++ [n]), KDir)]).
  { rewrite app_assoc, miss_app. cbn [miss app]. rewrite <- app_assoc, Hroot. reflexivity. }
  rewrite make_node_eq, entries_eq, tjoin_node by assumption. unfold kind_of.
  destruct (is_file exts (G n b (join (pre ++ [n])) ks)) eqn:F.
  - (* a file leaf: MkdirAll of the parent, then Create *)
    rewrite tjoin_parent by assumption.
    assert (Hk : ks = []).
    { unfold is_file in F. cbn [gkids] in F. destruct ks; [reflexivity|discriminate]. }
    subst ks. cbn [flat_map]. unfold mkdir_all. rewrite comps_pth by eo.
    assert (M : mkdir_all_from f (pth []) (tc ++ pre) = (f ++ miss f [] (tc ++ pre), true))
      by (apply mkdir_all_from_spec; [cbn [app]; eo|eo|exact Hd]).
    change (pth []) with [c_dot] in M. rewrite M.
    rewrite app_assoc. rewrite (create_spec (f ++ miss f [] (tc ++ pre)) (tc ++ pre) n).
    + rewrite <- !app_assoc. reflexivity.
    + eo.
    + exact Hr.
    + eapply mkdir_all_from_stat. exact M.
    + rewrite lookup_app, <- app_assoc, Hroot. apply lookup_none_notin. intros X.
      apply in_map_iff in X as [[p k] [Ep Hin]]. cbn [fst] in Ep. subst p.
      eapply (miss_key_short f (tc ++ pre) _ k [] n); [exact Hin|eo|]. rewrite <- app_assoc. reflexivity.
  - destruct ks as [|k0 ks'].
    + (* a directory leaf: MkdirAll of its own path *)
      cbn [flat_map]. unfold mkdir_all. rewrite comps_pth by eo.
      assert (M : mkdir_all_from f (pth []) (tc ++ pre ++ [n]) = (f ++ miss f [] (tc ++ pre ++ [n]), true))
        by (apply mkdir_all_from_spec; [cbn [app]; eo|eo|exact Hd']).
      change (pth []) with [c_dot] in M. rewrite M, Hmiss. rewrite <- ?app_assoc. reflexivity.
    + (* a directory with children: only the children are made *)
      rewrite (list_spec (pre ++ [n]) ltac:(eo) ltac:(eo) (k0 :: ks')).
      * rewrite Hmiss. rewrite <- ?app_assoc. reflexivity.
      * rewrite Forall_forall in IH, Hks. apply Forall_forall. intros x Hx.
        apply IH; [exact Hx|apply Hks; exact Hx|eo|eo].
      * exact Hks.
      * exact Hnd.
      * exact Hd'.
      * intros x Hx m Hm. rewrite Forall_forall in Hks. destruct (wf_g_name _ _ (Hks x Hx)) as [Hxn _].
        replace (tc ++ (pre ++ [n]) ++ [gname x]) with ((tc ++ pre ++ [n]) ++ [gname x]) by (rewrite <- !app_assoc; reflexivity).
        rewrite <- app_assoc. apply Hb. constructor; assumption.
Qed.

End MakeNode.

(* ---------- grown trees are well formed ---------- *)
Definition name_ok (n : str) : Prop := elem_ok n = true /\ os_refuses n = false.

Lemma gname_grow bf anc il t : gname (grow_node bf anc il t) = tname t.
Proof. destruct t as [n ks]. rewrite grow_node_eq. reflexivity. Qed.

Lemma gnames_kids bf anc ks : map gname (grow_kids bf anc ks) = map tname ks.
Proof. induction ks as [|k r IH]; [reflexivity|]. cbn [grow_kids map]. rewrite gname_grow, IH. reflexivity. Qed.

Lemma tnames_eq n ks : tnames (T n ks) = n :: flat_map tnames ks.
Proof. reflexivity. Qed.

Lemma grow_wf bf : forall t anc il,
  Forall name_ok (tnames t) -> nodup_sib t -> eok (map fst anc) ->
  wf_g (rev (map fst anc)) (grow_node bf anc il t).
Proof.
  induction t as [n ks IH] using tree_ind'. intros anc il Hn Hd Ha.
  rewrite tnames_eq in Hn. inversion Hn as [|? ? [Hn1 Hn2] Hks]; subst.
  apply nodup_sib_eq in Hd as [Hd1 Hd2]. rewrite grow_node_eq. constructor.
  - exact Hn1.
  - exact Hn2.
  - unfold node_bp. destruct anc as [|a anc']; [reflexivity|].
    rewrite (path_join_single n Hn1). change n with (join [n]) at 1.
    apply climb_path; [discriminate|exact Ha|discriminate|apply eok1; exact Hn1].
  - assert (E : map gname (grow_kids bf ((n, il) :: anc) ks) = map tname ks) by apply gnames_kids.
    rewrite E. exact Hd1.
  - assert (Ha' : eok (map fst ((n, il) :: anc))) by (constructor; assumption).
    change (rev (map fst anc) ++ [n]) with (rev (map fst ((n, il) :: anc))).
    clear Hn Hd1. induction ks as [|k r IHr]; [constructor|].
    inversion IH as [|? ? Hk Hr]; subst. cbn [flat_map] in Hks. apply Forall_app in Hks as [Hk1 Hk2].
    destruct Hd2 as [Hdk Hdr]. cbn [grow_kids]. constructor.
    + apply Hk; assumption.
    + apply IHr; assumption.
Qed.

Lemma grow_roots_wf bf ts :
  Forall (fun t => Forall name_ok (tnames t)) ts -> all_nodup ts -> NoDup (map tname ts) ->
  Forall (wf_g []) (map (grow_root bf) ts) /\ NoDup (map gname (map (grow_root bf) ts)).
Proof.
  intros Hn Hd Hr. split.
  - induction ts as [|t r IH]; [constructor|]. inversion Hn; subst. destruct Hd as [Hd1 Hd2].
    cbn [map]. constructor.
    + apply (grow_wf bf t [] false); [assumption|assumption|constructor].
    + apply IH; [assumption|assumption|inversion Hr; assumption].
  - rewrite map_map. erewrite map_ext; [exact Hr|]. intros t. unfold grow_root. apply gname_grow.
Qed.

(* ---------- the forest ---------- *)

(* everything a successful mkdir appends, in order: the absent prefixes of the target, then
   the nodes of every root in pre-order *)
Definition added (exts : list str) (tc : list str) (f : fsmap) (gs : list gtree) : fsmap :=
  (match gs with [] => [] | _ => miss f [] tc end) ++ flat_map (entries exts (pth tc)) gs.

Theorem make_roots_exact exts tc gs f :
  eok tc -> acc tc -> Forall (wf_g []) gs -> NoDup (map gname gs) ->
  dirs_or_none f [] tc -> (forall g, In g gs -> below f (tc ++ [gname g])) ->
  make_roots exts (pth tc) f gs = (f ++ added exts tc f gs, true).
Proof.
  intros Htc Atc Hw Hnd Hd Hb. unfold added.
  pose proof (list_spec exts tc Htc Atc [] ltac:(constructor) ltac:(constructor) gs) as L.
  rewrite app_nil_r in L. cbn [app] in L. apply L; try assumption.
  apply Forall_forall. intros g Hg. rewrite Forall_forall in Hw.
  pose proof (node_ok exts tc Htc Atc g [] (Hw g Hg) ltac:(constructor) ltac:(constructor)) as N.
  exact N.
Qed.

Lemma root_path g : wf_g [] g -> gpath g = gname g.
Proof. intros H. inversion H; subst. reflexivity. Qed.

Lemma root_tjoin tc g : eok tc -> wf_g [] g -> tjoin (pth tc) (gpath g) = pth (tc ++ [gname g]).
Proof.
  intros Htc H. inversion H; subst. cbn [gpath gname]. apply (tjoin_node tc [] n); [assumption|constructor|assumption].
Qed.

Lemma no_root_exists tc gs f :
  eok tc -> acc tc -> Forall (wf_g []) gs ->
  dirs_or_none f [] tc -> (forall g, In g gs -> below f (tc ++ [gname g])) ->
  exists_root f (pth tc) gs = false.
Proof.
  intros Htc Atc Hw Hd Hb. unfold exists_root.
  destruct (existsb _ gs) eqn:E; [|reflexivity]. exfalso.
  apply existsb_exists in E as [g [Hg E]]. rewrite Forall_forall in Hw. specialize (Hw g Hg).
  destruct (wf_g_name _ _ Hw) as [Hn Hr].
  rewrite root_tjoin in E by assumption. rewrite stat_pth in E by eo.
  change [c_dot] with (pth []) in E. rewrite stat_none in E; [discriminate|cbn [app]; exact Htc|eo|exact Hd|].
  cbn [app]. rewrite <- (app_nil_r (tc ++ [gname g])). apply Hb; [exact Hg|constructor].
Qed.

(* (a): mkdir succeeds and the new file system is the old one followed by [added] *)
Theorem mkdirer_exact exts dir tc gs f :
  target_of dir = pth tc -> eok tc -> acc tc -> Forall (wf_g []) gs -> NoDup (map gname gs) ->
  dirs_or_none f [] tc -> (forall g, In g gs -> below f (tc ++ [gname g])) ->
  mkdirer exts dir f gs = (f ++ added exts tc f gs, Ok tt).
Proof.
  intros Ht Htc Atc Hw Hnd Hd Hb. unfold mkdirer. rewrite Ht.
  rewrite no_root_exists by assumption. rewrite make_roots_exact by assumption. reflexivity.
Qed.

(* ---------- the appended entries: distinct keys, all new, exactly nodes and prefixes ---------- *)
Lemma nodup_app {A} (a b : list A) :
  NoDup a -> NoDup b -> (forall x, In x a -> ~ In x b) -> NoDup (a ++ b).
Proof.
  induction a as [|x a IH]; intros Ha Hb Hd; [exact Hb|]. inversion Ha; subst. cbn [app]. constructor.
  - intros X. apply in_app_or in X as [X|X]; [contradiction|]. exact (Hd x (or_introl eq_refl) X).
  - apply IH; [assumption|assumption|]. intros y Hy. apply Hd. right. exact Hy.
Qed.

Lemma lookup_iff_in p k A : NoDup (map fst A) -> (lookup p A = Some k <-> In (p, k) A).
Proof.
  intros Hnd. split; [apply lookup_in|].
  induction A as [|[q k'] r IH]; intros Hin; [destruct Hin|]. cbn [map fst] in Hnd. inversion Hnd as [|? ? Hnot Hnd']; subst.
  cbn [lookup]. destruct Hin as [Hin|Hin].
  - inversion Hin; subst. rewrite str_eqb_refl. reflexivity.
  - destruct (str_eqb p q) eqn:E; [|apply IH; assumption].
    apply str_eqb_eq in E. subst q. exfalso. apply Hnot. apply in_map_iff. exists (p, k). auto.
Qed.

Lemma miss_nodup f : forall cs pre, eok (pre ++ cs) -> NoDup (map fst (miss f pre cs)).
Proof.
  induction cs as [|c rest IH]; intros pre He; [constructor|]. cbn [miss]. rewrite map_app.
  assert (He' : eok ((pre ++ [c]) ++ rest)) by (rewrite <- app_assoc; exact He).
  apply nodup_app.
  - destruct (lookup (pth (pre ++ [c])) f); cbn; [constructor|constructor; [intros []|constructor]].
  - apply IH. exact He'.
  - intros x Hx X. destruct (lookup (pth (pre ++ [c])) f); [destruct Hx|]. destruct Hx as [Hx|[]]. cbn [fst] in Hx. subst x.
    apply in_map_iff in X as [[p k] [Ep Hin]]. cbn [fst] in Ep. subst p.
    destruct (miss_keys _ _ _ _ _ Hin) as [a [Ha [Hne [E _]]]].
    apply pth_inj in E.
    + rewrite <- (app_nil_r (pre ++ [c])) in E at 1. apply app_inv_head in E. congruence.
    + eapply pfx_eok; [exact He|exists rest; reflexivity].
    + eapply pfx_eok; [exact He'|exact Ha].
Qed.

Lemma miss_in f : forall cs pre a,
  pfx a cs -> a <> [] -> lookup (pth (pre ++ a)) f = None -> In (pth (pre ++ a), KDir) (miss f pre cs).
Proof.
  induction cs as [|c rest IH]; intros pre a Ha Hne L.
  - destruct Ha as [b0 E]. destruct a; [congruence|discriminate].
  - destruct (pfx_cons_inv _ _ _ Ha Hne) as [a' [-> Ha']]. cbn [miss]. apply in_or_app. destruct a' as [|x a''].
    + left. rewrite L. left. reflexivity.
    + right. change (pre ++ c :: x :: a'') with (pre ++ [c] ++ x :: a'') in *. rewrite app_assoc in *.
      apply IH; [exact Ha'|discriminate|exact L].
Qed.

Section Added.
Variable exts : list str.
Variable tc : list str.
Hypothesis Htc : eok tc.

Lemma entries_in g p k :
  In (p, k) (entries exts (pth tc) g) <->
  exists x, In x (gnodes g) /\ p = tjoin (pth tc) (gpath x) /\ k = kind_of exts x.
Proof.
  unfold entries. rewrite in_map_iff. split.
  - intros [x [E Hx]]. inversion E; subst. exists x. auto.
  - intros [x [Hx [-> ->]]]. exists x. auto.
Qed.

Lemma forest_nodup pre : eok pre -> forall l,
  Forall (wf_g pre) l -> NoDup (map gname l) ->
  Forall (fun g => NoDup (map fst (entries exts (pth tc) g))) l ->
  NoDup (map fst (flat_map (entries exts (pth tc)) l)).
Proof.
  intros Hp. induction l as [|g rest IH]; intros Hw Hnd Hn; [constructor|].
  inversion Hw as [|? ? Wg Wrest]; subst. inversion Hn as [|? ? Ng Nrest]; subst.
  cbn [map] in Hnd. inversion Hnd as [|? ? Hnot Hnd']; subst.
  cbn [flat_map]. rewrite map_app. apply nodup_app; [exact Ng|apply IH; assumption|].
  intros x Hx X. apply in_map_iff in Hx as [[p k] [Ep Hin]]. cbn [fst] in Ep. subst p.
  apply in_map_iff in X as [[p' k'] [Ep Hin']]. cbn [fst] in Ep. subst p'.
  apply in_flat_map in Hin' as [g' [Hg' Hin']].
  rewrite Forall_forall in Wrest. pose proof (Wrest g' Hg') as Wg'.
  destruct (entries_keys exts tc Htc g pre Wg Hp _ _ Hin) as [m [Hm E]].
  destruct (entries_keys exts tc Htc g' pre Wg' Hp _ _ Hin') as [m' [Hm' E']].
  rewrite E in E'. apply pth_inj in E'.
  - apply app_inv_head in E'. apply app_inv_head in E'. cbn [app] in E'. inversion E' as [[E1 E2]].
    apply Hnot. rewrite E1. apply in_map. exact Hg'.
  - destruct (wf_g_name _ _ Wg). eo.
  - destruct (wf_g_name _ _ Wg'). eo.
Qed.

Lemma entries_nodup : forall g pre, wf_g pre g -> eok pre -> NoDup (map fst (entries exts (pth tc) g)).
Proof.
  induction g as [n b p ks IH] using gtree_ind'. intros pre Hw Hp.
  inversion Hw as [? ? ? ? ? Hn Hr Hpath Hnd Hks]; subst.
  rewrite entries_eq. cbn [map fst]. rewrite tjoin_node by assumption. constructor.
  - intros X. apply in_map_iff in X as [[p k] [Ep Hin]]. cbn [fst] in Ep. subst p.
    apply in_flat_map in Hin as [x [Hx Hin]]. rewrite Forall_forall in Hks.
    destruct (entries_keys exts tc Htc x (pre ++ [n]) (Hks x Hx) ltac:(eo) _ _ Hin) as [m [Hm E]].
    destruct (wf_g_name _ _ (Hks x Hx)) as [Hxn _].
    apply pth_inj in E.
    + apply (f_equal (@List.length str)) in E. rewrite !app_length in E. cbn in E. lia.
    + eo.
    + eo.
  - apply (forest_nodup (pre ++ [n])); [eo|exact Hks|exact Hnd|].
    rewrite Forall_forall in IH, Hks. apply Forall_forall. intros x Hx. apply (IH x Hx (pre ++ [n])); [apply Hks; exact Hx|eo].
Qed.

Lemma added_nodup f gs :
  Forall (wf_g []) gs -> NoDup (map gname gs) -> NoDup (map fst (added exts tc f gs)).
Proof.
  intros Hw Hnd. unfold added. rewrite map_app. apply nodup_app.
  - destruct gs; [constructor|]. apply miss_nodup. exact Htc.
  - apply (forest_nodup []); [constructor|exact Hw|exact Hnd|].
    rewrite Forall_forall in Hw. apply Forall_forall. intros g Hg. apply (entries_nodup g []); [apply Hw; exact Hg|constructor].
  - intros x Hx X. apply in_map_iff in Hx as [[p k] [Ep Hin]]. cbn [fst] in Ep. subst p.
    apply in_map_iff in X as [[p' k'] [Ep Hin']]. cbn [fst] in Ep. subst p'.
    apply in_flat_map in Hin' as [g [Hg Hin']]. rewrite Forall_forall in Hw.
    destruct (entries_keys exts tc Htc g [] (Hw g Hg) ltac:(constructor) _ _ Hin') as [m [Hm E]].
    destruct (wf_g_name _ _ (Hw g Hg)) as [Hgn _].
    assert (Hin2 : In (x, k) (miss f [] tc)) by (destruct gs; [destruct Hin|exact Hin]).
    eapply (miss_key_short f tc x k m (gname g)); [exact Hin2|eo; constructor; assumption|exact E].
Qed.

Lemma added_fresh f gs p k :
  Forall (wf_g []) gs -> (forall g, In g gs -> below f (tc ++ [gname g])) ->
  In (p, k) (added exts tc f gs) -> lookup p f = None.
Proof.
  intros Hw Hb Hin. unfold added in Hin. apply in_app_or in Hin as [Hin|Hin].
  - assert (Hin2 : In (p, k) (miss f [] tc)) by (destruct gs; [destruct Hin|exact Hin]).
    destruct (miss_keys _ _ _ _ _ Hin2) as [a [_ [_ [_ [_ L]]]]]. exact L.
  - apply in_flat_map in Hin as [g [Hg Hin]]. rewrite Forall_forall in Hw.
    destruct (entries_keys exts tc Htc g [] (Hw g Hg) ltac:(constructor) _ _ Hin) as [m [Hm E]].
    rewrite E. cbn [app]. change (tc ++ gname g :: m) with (tc ++ [gname g] ++ m). rewrite app_assoc.
    apply Hb; assumption.
Qed.

(* membership: a node of the forest with its kind, or an absent prefix of the target *)
Lemma added_in f gs p k :
  In (p, k) (added exts tc f gs) <->
  (exists g x, In g gs /\ In x (gnodes g) /\ p = tjoin (pth tc) (gpath x) /\ k = kind_of exts x) \/
  (gs <> [] /\ k = KDir /\ lookup p f = None /\ exists a, pfx a tc /\ a <> [] /\ p = pth a).
Proof.
  unfold added. rewrite in_app_iff. split.
  - intros [H|H].
    + right. destruct gs as [|g0 gs']; [destruct H|]. split; [discriminate|].
      destruct (miss_keys _ _ _ _ _ H) as [a [Ha [Hne [E [Hk L]]]]]. repeat split; [exact Hk|exact L|].
      exists a. auto.
    + left. apply in_flat_map in H as [g [Hg H]]. apply entries_in in H as [x Hx]. exists g, x. tauto.
  - intros [[g [x [Hg [Hx [Hp Hk]]]]]|[Hne [Hk [L [a [Ha [Hna Hp]]]]]]].
    + right. apply in_flat_map. exists g. split; [exact Hg|]. apply entries_in. exists x. auto.
    + left. destruct gs; [congruence|]. subst p k. apply (miss_in f tc [] a); assumption.
Qed.

End Added.

(* ---------- (b) and (c) ---------- *)
Section Claims.
Variables (exts : list str) (dir : str) (tc : list str) (gs : list gtree) (f : fsmap).
Hypothesis Ht : target_of dir = pth tc.
Hypothesis Htc : eok tc.
Hypothesis Atc : acc tc.
Hypothesis Hw : Forall (wf_g []) gs.
Hypothesis Hnd : NoDup (map gname gs).
Hypothesis Hd : dirs_or_none f [] tc.
Hypothesis Hb : forall g, In g gs -> below f (tc ++ [gname g]).

Let f' := f ++ added exts tc f gs.

Theorem mkdir_success : mkdirer exts dir f gs = (f', Ok tt).
Proof. apply mkdirer_exact; assumption. Qed.

Theorem mkdir_keeps p k : lookup p f = Some k -> lookup p f' = Some k.
Proof. apply lookup_app_some. Qed.

Theorem mkdir_new p k : lookup p f = None ->
  (lookup p f' = Some k <->
   (exists g x, In g gs /\ In x (gnodes g) /\ p = tjoin (pth tc) (gpath x) /\ k = kind_of exts x) \/
   (gs <> [] /\ k = KDir /\ exists a, pfx a tc /\ a <> [] /\ p = pth a)).
Proof.
  intros L. unfold f'. rewrite lookup_app, L.
  rewrite (lookup_iff_in p k _ (added_nodup exts tc Htc f gs Hw Hnd)).
  rewrite (added_in exts tc). split; (intros [H|H]; [left; exact H|right]); tauto.
Qed.

(* every node path is new *)
Theorem mkdir_nodes_new g x : In g gs -> In x (gnodes g) -> lookup (tjoin (pth tc) (gpath x)) f = None.
Proof.
  intros Hg Hx. apply (added_fresh exts tc Htc f gs _ (kind_of exts x) Hw Hb).
  apply (added_in exts tc). left. exists g, x. auto.
Qed.

End Claims.

(* ================= well-formed file systems: deriving the hypotheses from os.Stat ================= *)

(* a key is the join of a non-empty list of valid elements *)
Definition key_ok (p : str) : Prop := exists es, es <> [] /\ eok es /\ p = join es.

(* every entry has a well-formed key and its parent directory is "." or an existing directory *)
Definition fs_closed (f : fsmap) : Prop :=
  forall p k, lookup p f = Some k ->
    key_ok p /\ (dirname p = [c_dot] \/ lookup (dirname p) f = Some KDir).

Definition fs_ok (f : fsmap) : Prop := NoDup (map fst f) /\ fs_closed f.

Lemma pth_join es : es <> [] -> pth es = join es.
Proof. destruct es; [congruence|reflexivity]. Qed.

Lemma fs_closed_below f x : fs_closed f -> x <> [] -> lookup (pth x) f = None ->
  forall m, eok (x ++ m) -> lookup (pth (x ++ m)) f = None.
Proof.
  intros Hc Hx L m. induction m as [|c m' IH] using rev_ind; intros He.
  - rewrite app_nil_r. exact L.
  - rewrite app_assoc in *. destruct (lookup (pth ((x ++ m') ++ [c])) f) as [k|] eqn:E; [|reflexivity]. exfalso.
    assert (He' : eok (x ++ m')) by (apply eok_app in He; tauto).
    destruct (Hc _ _ E) as [_ [D|D]]; rewrite dirname_pth in D by exact He.
    + pose proof (join_not_dot (x ++ m') He' ltac:(destruct x; [congruence|discriminate])) as N.
      rewrite <- pth_join in N by (destruct x; [congruence|discriminate]). rewrite D in N. discriminate.
    + rewrite IH in D by exact He'. discriminate.
Qed.

Lemma stat_none_inv : forall cs f pre,
  eok (pre ++ cs) -> stat_from f (pth pre) cs = StNone ->
  exists a c, pfx (a ++ [c]) cs /\ all_dirs f pre a /\ lookup (pth (pre ++ a ++ [c])) f = None.
Proof.
  induction cs as [|c rest IH]; intros f pre He H; [discriminate|].
  assert (Hp : eok pre) by (apply eok_app in He; tauto).
  cbn [stat_from] in H. rewrite join2_pth in H by exact Hp. destruct (os_refuses c); [discriminate|].
  destruct (lookup (pth (pre ++ [c])) f) as [[|e]|] eqn:L.
  - destruct (IH f (pre ++ [c]) ltac:(rewrite <- app_assoc; exact He) H) as [a [c' [Ha [Hd Hl]]]].
    exists (c :: a), c'. split; [apply (pfx_cons c (a ++ [c']) rest); exact Ha|]. split.
    + intros x Hx Hne. destruct (pfx_cons_inv _ _ _ Hx Hne) as [x' [-> Hx']]. destruct x' as [|y x''].
      * exact L.
      * change (pre ++ c :: y :: x'') with (pre ++ [c] ++ y :: x''). rewrite app_assoc. apply Hd; [exact Hx'|discriminate].
    + rewrite <- app_assoc in Hl. exact Hl.
  - destruct rest; discriminate.
  - exists [], c. split; [apply pfx_one|]. split; [|exact L].
    intros x [b0 E] Hne. destruct x; [congruence|discriminate].
Qed.

Lemma pfx_comparable : forall (l x y : list str), pfx x l -> pfx y l -> pfx x y \/ pfx y x.
Proof.
  induction l as [|h l IH]; intros x y [bx Ex] [by_ Ey].
  - destruct x; [|discriminate]. left. exists y. reflexivity.
  - destruct x as [|hx x']; [left; exists y; reflexivity|].
    destruct y as [|hy y']; [right; exists (hx :: x'); reflexivity|].
    cbn [app] in Ex, Ey. inversion Ex; subst. inversion Ey; subst.
    destruct (IH x' y' (ex_intro _ bx eq_refl) (ex_intro _ by_ H1)) as [[b1 E1]|[b1 E1]].
    + left. exists b1. subst. reflexivity.
    + right. exists b1. subst. reflexivity.
Qed.

Lemma stat_none_hyps f tc r :
  fs_closed f -> eok (tc ++ [r]) ->
  stat f (pth (tc ++ [r])) = StNone ->
  dirs_or_none f [] tc /\ below f (tc ++ [r]).
Proof.
  intros Hc He Hs. apply stat_inv in Hs; [|discriminate]. rewrite comps_pth in Hs by exact He.
  destruct (stat_none_inv (tc ++ [r]) f [] He Hs) as [a [c [Ha [Hd L]]]]. cbn [app] in L.
  assert (Hne : a ++ [c] <> []) by (destruct a; discriminate).
  split.
  - intros x Hx Hnx. cbn [app].
    assert (Hx' : pfx x (tc ++ [r])) by (destruct Hx as [b0 E]; exists (b0 ++ [r]); subst; rewrite app_assoc; reflexivity).
    destruct (pfx_comparable _ _ _ Hx' Ha) as [H|[b1 E]].
    + destruct (pfx_snoc _ _ _ H) as [H1|H1]; [left; apply (Hd x H1 Hnx)|right; subst x; exact L].
    + right. subst x. apply fs_closed_below; [exact Hc|exact Hne|exact L|].
      apply (pfx_eok [] (tc ++ [r]) _ He Hx').
  - intros m Hm. destruct Ha as [b1 E]. rewrite E, <- app_assoc.
    apply fs_closed_below; [exact Hc|exact Hne|exact L|]. rewrite app_assoc, <- E.
    apply eok_app. split; assumption.
Qed.

Lemma derive_hyps f tc gs :
  fs_closed f -> eok tc -> Forall (wf_g []) gs ->
  (forall g, In g gs -> stat f (tjoin (pth tc) (gpath g)) = StNone) ->
  (gs <> [] -> dirs_or_none f [] tc) /\ (forall g, In g gs -> below f (tc ++ [gname g])).
Proof.
  intros Hc Htc Hw Hs. rewrite Forall_forall in Hw.
  assert (H : forall g, In g gs -> dirs_or_none f [] tc /\ below f (tc ++ [gname g])).
  { intros g Hg. destruct (wf_g_name _ _ (Hw g Hg)) as [Hn _].
    apply stat_none_hyps; [exact Hc|eo|]. rewrite <- root_tjoin by auto. apply Hs. exact Hg. }
  split.
  - intros Hne. destruct gs as [|g r]; [congruence|]. apply (H g). left. reflexivity.
  - intros g Hg. apply (H g Hg).
Qed.

(* the directory argument of mkdir for a component list: "" for the empty list *)
Definition dir_of (tc : list str) : str := match tc with [] => [] | _ => join tc end.

Lemma target_dir_of tc : eok tc -> target_of (dir_of tc) = pth tc.
Proof.
  intros Htc. destruct tc as [|e r]; [reflexivity|]. unfold dir_of, target_of, pth.
  pose proof (join_nonempty (e :: r) ltac:(discriminate) Htc). destruct (join (e :: r)); [congruence|reflexivity].
Qed.

(* ================= the property, for grown forests ================= *)
Theorem mkdir_creates_exactly exts dir tc gs f :
  target_of dir = pth tc -> eok tc -> acc tc ->
  Forall (wf_g []) gs -> NoDup (map gname gs) ->
  fs_closed f ->
  (forall g, In g gs -> stat f (tjoin (pth tc) (gpath g)) = StNone) ->
  let f' := f ++ added exts tc f gs in
  mkdirer exts dir f gs = (f', Ok tt) /\
  (forall p k, lookup p f = Some k -> lookup p f' = Some k) /\
  (forall p k, lookup p f = None ->
     (lookup p f' = Some k <->
      (exists g x, In g gs /\ In x (gnodes g) /\ p = tjoin (pth tc) (gpath x) /\ k = kind_of exts x) \/
      (gs <> [] /\ k = KDir /\ exists a, pfx a tc /\ a <> [] /\ p = pth a))) /\
  (forall g x, In g gs -> In x (gnodes g) -> lookup (tjoin (pth tc) (gpath x)) f = None).
Proof.
  intros Ht Htc Atc Hw Hnd Hc Hs f'.
  destruct (derive_hyps f tc gs Hc Htc Hw Hs) as [Hd Hb].
  destruct gs as [|g0 gs'].
  - unfold f', added. cbn [flat_map app]. rewrite app_nil_r.
    split; [reflexivity|]. split; [auto|]. split; [|intros g x []].
    intros p k L. rewrite L. split; [discriminate|].
    intros [[g [x [[] _]]]|[Hne _]]; congruence.
  - specialize (Hd ltac:(discriminate)). repeat split.
    + apply mkdir_success; assumption.
    + intros p k. apply mkdir_keeps.
    + apply mkdir_new; assumption.
    + apply mkdir_new; assumption.
    + intros g x. apply (mkdir_nodes_new exts tc (g0 :: gs') f Htc Hw Hb).
Qed.

(* ================= Stage 4: what lies under a root afterwards; verify; the counters ================= *)

Lemma has_prefix_inv : forall a s, has_prefix a s = true -> exists r, s = a ++ r.
Proof.
  induction a as [|c a IH]; intros s H; [exists s; reflexivity|].
  destruct s as [|d s']; [discriminate|]. cbn [has_prefix] in H. apply andb_true_iff in H as [H1 H2].
  apply Ascii.eqb_eq in H1. subst d. destruct (IH s' H2) as [r E]. exists r. subst. reflexivity.
Qed.

Lemma under_ext x m : eok (x ++ m) -> x <> [] -> under (pth x) (pth (x ++ m)) = true.
Proof.
  intros He Hx. unfold under. destruct m as [|c m'].
  - rewrite app_nil_r, str_eqb_refl. reflexivity.
  - rewrite (pth_join x Hx), (pth_join (x ++ c :: m')) by (destruct x; [congruence|discriminate]).
    rewrite join_app by (auto; discriminate). rewrite app_assoc, has_prefix_app. rewrite orb_true_r. reflexivity.
Qed.

Lemma under_inv x es : eok x -> x <> [] -> eok es -> under (pth x) (pth es) = true -> exists m, es = x ++ m.
Proof.
  intros Hx Hne He H. unfold under, is_dot_path in H.
  rewrite (pth_join x Hne) in H at 3. rewrite (join_not_dot x Hx Hne), orb_false_r in H.
  apply orb_true_iff in H as [H|H].
  - apply str_eqb_eq in H. apply pth_inj in H; [|assumption|assumption]. exists []. rewrite app_nil_r. exact H.
  - apply has_prefix_inv in H as [r E]. rewrite (pth_join x Hne) in E.
    destruct es as [|e es'].
    + exfalso. cbn [pth] in E. pose proof (join_nonempty x Hne Hx) as N.
      destruct (join x) as [|c j]; [congruence|]. cbn [app] in E. inversion E as [[E1 E2]]. destruct j; discriminate.
    + exists (split_on c_slash r).
      rewrite <- (split_join (e :: es')) at 1 by (auto; discriminate).
      change (pth (e :: es')) with (join (e :: es')) in E. rewrite E, <- app_assoc. cbn [app].
      apply split_noslash_app; [exact Hne|]. eapply Forall_impl; [|exact Hx]. intros a. apply elem_ok_noslash.
Qed.

Lemma filter_all_false {A} (p : A -> bool) l : (forall x, In x l -> p x = false) -> filter p l = [].
Proof. apply filter_nil_iff. Qed.

Lemma filter_all_true {A} (p : A -> bool) l : (forall x, In x l -> p x = true) -> filter p l = l.
Proof.
  induction l as [|a l IH]; intros H; [reflexivity|]. cbn [filter]. rewrite (H a (or_introl eq_refl)).
  f_equal. apply IH. intros x Hx. apply H. right. exact Hx.
Qed.

Lemma md_paths_entries exts target g : md_paths target g = map fst (entries exts target g).
Proof.
  unfold md_paths, entries. rewrite <- (gnodes_gpre g 1), !map_map. reflexivity.
Qed.

Lemma stat_found : forall cs f pre r k,
  eok (pre ++ cs ++ [r]) -> acc (cs ++ [r]) -> all_dirs f pre cs ->
  lookup (pth (pre ++ cs ++ [r])) f = Some k ->
  stat_from f (pth pre) (cs ++ [r]) = match k with KDir => StDir | KFile _ => StFile end.
Proof.
  induction cs as [|c rest IH]; intros f pre r k He Ha Hd L.
  - assert (Hp : eok pre) by (apply eok_app in He; tauto).
    inversion Ha as [|? ? Hc _]; subst. cbn [app stat_from]. rewrite Hc, join2_pth by exact Hp.
    cbn [app] in L. rewrite L. destruct k; reflexivity.
  - assert (Hp : eok pre) by (apply eok_app in He; tauto).
    inversion Ha as [|? ? Hc Hrest]; subst. cbn [app stat_from]. rewrite Hc, join2_pth by exact Hp.
    rewrite (Hd [c] (pfx_one c rest)) by discriminate.
    apply IH; [rewrite <- app_assoc; exact He|exact Hrest|apply all_dirs_tail; exact Hd|].
    rewrite <- app_assoc. exact L.
Qed.

Definition keys_ok (f : fsmap) : Prop := forall p, In p (map fst f) -> key_ok p.

Lemma fs_closed_keys_ok f : NoDup (map fst f) -> fs_closed f -> keys_ok f.
Proof.
  intros Hnd Hc p Hp. apply in_map_iff in Hp as [[q k] [E Hin]]. cbn [fst] in E. subst q.
  apply (lookup_iff_in p k f Hnd) in Hin. exact (proj1 (Hc _ _ Hin)).
Qed.

Lemma nodup_name_eq gs g g' : NoDup (map gname gs) -> In g gs -> In g' gs -> gname g = gname g' -> g = g'.
Proof.
  induction gs as [|x r IH]; intros Hnd Hg Hg' E; [destruct Hg|]. cbn [map] in Hnd. inversion Hnd as [|? ? Hnot Hnd']; subst.
  destruct Hg as [Hg|Hg]; destruct Hg' as [Hg'|Hg'].
  - congruence.
  - subst x. exfalso. apply Hnot. rewrite E. apply in_map. exact Hg'.
  - subst x. exfalso. apply Hnot. rewrite <- E. apply in_map. exact Hg.
  - apply IH; assumption.
Qed.

Section After.
Variables (exts : list str) (tc : list str) (gs : list gtree) (f : fsmap).
Hypothesis Htc : eok tc.
Hypothesis Atc : acc tc.
Hypothesis Hw : Forall (wf_g []) gs.
Hypothesis Hnd : NoDup (map gname gs).
Hypothesis Hk : keys_ok f.
Hypothesis Hd : dirs_or_none f [] tc.
Hypothesis Hb : forall g, In g gs -> below f (tc ++ [gname g]).

Let f' := f ++ added exts tc f gs.

Lemma entries_under_own g e : In g gs -> In e (entries exts (pth tc) g) -> under (pth (tc ++ [gname g])) (fst e) = true.
Proof.
  intros Hg He. destruct e as [p k]. rewrite Forall_forall in Hw.
  destruct (entries_keys exts tc Htc g [] (Hw g Hg) ltac:(constructor) _ _ He) as [m [Hm E]].
  cbn [fst app] in *. subst p. change (tc ++ gname g :: m) with (tc ++ [gname g] ++ m). rewrite app_assoc.
  destruct (wf_g_name _ _ (Hw g Hg)). apply under_ext; [eo|destruct tc; discriminate].
Qed.

Lemma entries_under_other g g' e : In g gs -> In g' gs -> g <> g' ->
  In e (entries exts (pth tc) g') -> under (pth (tc ++ [gname g])) (fst e) = false.
Proof.
  intros Hg Hg' Hne He. destruct e as [p k]. rewrite Forall_forall in Hw.
  destruct (entries_keys exts tc Htc g' [] (Hw g' Hg') ltac:(constructor) _ _ He) as [m [Hm E]].
  cbn [fst app] in *. subst p. destruct (wf_g_name _ _ (Hw g Hg)). destruct (wf_g_name _ _ (Hw g' Hg')).
  destruct (under (pth (tc ++ [gname g])) (pth (tc ++ gname g' :: m))) eqn:U; [|reflexivity]. exfalso.
  apply under_inv in U as [m' E]; [|eo|destruct tc; discriminate|eo; constructor; assumption].
  rewrite <- app_assoc in E. apply app_inv_head in E. cbn [app] in E. inversion E as [[E1 E2]].
  apply Hne. symmetry. apply (nodup_name_eq gs); assumption.
Qed.

(* the entries of the new file system under a root's path are exactly that root's entries *)
Theorem under_root_entries g : In g gs ->
  filter (fun e => under (pth (tc ++ [gname g])) (fst e)) f' = entries exts (pth tc) g.
Proof.
  intros Hg. pose proof Hw as Hw'. rewrite Forall_forall in Hw'. destruct (wf_g_name _ _ (Hw' g Hg)) as [Hn Hr].
  assert (Hx : eok (tc ++ [gname g])) by eo.
  assert (Hxne : tc ++ [gname g] <> []) by (destruct tc; discriminate).
  unfold f', added. rewrite !filter_app_.
  rewrite (filter_all_false _ f).
  2:{ intros [p k] Hin. cbn [fst]. destruct (under (pth (tc ++ [gname g])) p) eqn:U; [|reflexivity]. exfalso.
      destruct (Hk p) as [es [Hes [Hes' ->]]]; [apply in_map_iff; exists (p, k); auto|].
      rewrite <- (pth_join es Hes) in U. apply under_inv in U as [m E]; [|assumption|assumption|assumption].
      assert (Hm : eok m) by (subst es; apply eok_app in Hes'; tauto).
      pose proof (Hb g Hg m Hm) as L. rewrite <- E, (pth_join es Hes) in L.
      apply lookup_none_notin in L. apply L. apply in_map_iff. exists (join es, k). auto. }
  rewrite (filter_all_false _ (match gs with [] => [] | _ => miss f [] tc end)).
  2:{ intros [p k] Hin. cbn [fst]. assert (Hin2 : In (p, k) (miss f [] tc)) by (destruct gs; [destruct Hin|exact Hin]).
      destruct (miss_keys _ _ _ _ _ Hin2) as [a [Ha [Hna [E _]]]]. cbn [app] in E. subst p.
      destruct (under (pth (tc ++ [gname g])) (pth a)) eqn:U; [|reflexivity]. exfalso.
      apply under_inv in U as [m E]; [|assumption|assumption|apply (pfx_eok [] tc a Htc Ha)].
      apply pfx_length in Ha. apply (f_equal (@List.length str)) in E. rewrite !app_length in E. cbn in E. lia. }
  cbn [app].
  assert (G : forall l, (forall x, In x l -> In x gs) -> NoDup (map gname l) -> In g l ->
            filter (fun e => under (pth (tc ++ [gname g])) (fst e)) (flat_map (entries exts (pth tc)) l) = entries exts (pth tc) g).
  { induction l as [|g0 rest IH]; intros Hsub Hnd' Hin; [destruct Hin|].
    cbn [map] in Hnd'. inversion Hnd' as [|? ? Hnot Hnd'']; subst. cbn [flat_map]. rewrite filter_app_.
    destruct Hin as [Hin|Hin].
    - subst g0. rewrite filter_all_true by (intros e He; apply entries_under_own; assumption).
      rewrite filter_all_false; [apply app_nil_r|]. intros e He. apply in_flat_map in He as [g' [Hg' He]].
      apply (entries_under_other g g'); [exact Hg|apply Hsub; right; exact Hg'| |exact He].
      intros X. subst g'. apply Hnot. apply in_map. exact Hg'.
    - rewrite (filter_all_false _ (entries exts (pth tc) g0)).
      + cbn [app]. apply IH; [intros y Hy; apply Hsub; right; exact Hy|exact Hnd''|exact Hin].
      + intros e He. apply (entries_under_other g g0); [exact Hg|apply Hsub; left; reflexivity| |exact He].
        intros X. subst g0. apply Hnot. apply in_map. exact Hin. }
  apply G; [auto|exact Hnd|exact Hg].
Qed.

Lemma after_all_dirs : gs <> [] -> all_dirs f' [] tc.
Proof.
  intros Hne. unfold f', added. destruct gs as [|g0 r]; [congruence|].
  rewrite app_assoc. apply all_dirs_app_r. apply after_miss; assumption.
Qed.

Lemma after_root_stat g : In g gs ->
  stat f' (tjoin (pth tc) (gpath g)) = (if is_file exts g then StFile else StDir).
Proof.
  intros Hg. pose proof Hw as Hw'. rewrite Forall_forall in Hw'. destruct (wf_g_name _ _ (Hw' g Hg)) as [Hn Hr].
  rewrite root_tjoin by auto. rewrite stat_pth by eo. change [c_dot] with (pth []).
  rewrite (stat_found tc f' [] (gname g) (kind_of exts g)).
  - unfold kind_of. destruct (is_file exts g); reflexivity.
  - cbn [app]. eo.
  - eo.
  - apply after_all_dirs. intros X. subst gs. destruct Hg.
  - cbn [app]. rewrite <- root_tjoin by auto. unfold f'.
    apply (mkdir_new exts tc gs f Htc Hw Hnd).
    + apply (mkdir_nodes_new exts tc gs f Htc Hw Hb g g Hg). destruct g. left. reflexivity.
    + left. exists g, g. repeat split; [exact Hg|destruct g; left; reflexivity].
Qed.

(* strict verification passes right after a successful mkdir *)
Theorem verify_after strict : verifier strict (pth tc) f' gs = Ok tt.
Proof.
  assert (V : forall g, In g gs -> verify_root strict (pth tc) f' g = VPass).
  { intros g Hg. pose proof Hw as Hw'. rewrite Forall_forall in Hw'.
    assert (Hseen : entries_under f' (tjoin (pth tc) (gpath g)) = md_paths (pth tc) g).
    { unfold entries_under. rewrite root_tjoin by auto. rewrite (under_root_entries g Hg).
      symmetry. apply md_paths_entries. }
    apply verify_root_pass_iff.
    - rewrite (after_root_stat g Hg). destruct (is_file exts g); auto.
    - rewrite Hseen. split; auto. }
  revert V. generalize gs as l. induction l as [|g r IH]; intros V; [reflexivity|].
  cbn [verifier]. rewrite (V g (or_introl eq_refl)). apply IH. intros x Hx. apply V. right. exact Hx.
Qed.

(* ---------- the counters of the dry-run summary ---------- *)
Definition is_dir_kind (k : kind) : bool := match k with KDir => true | _ => false end.
Definition is_empty_file (k : kind) : bool := match k with KFile true => true | _ => false end.

Lemma count_dirs_entries g :
  List.length (filter (fun e => is_dir_kind (snd e)) (entries exts (pth tc) g)) = count_dirs exts g.
Proof.
  unfold count_dirs, entries. rewrite <- (gnodes_gpre g 1).
  induction (gpre 1 g) as [|[d x] l IH]; [reflexivity|]. cbn [map filter fst snd].
  unfold kind_of at 1. destruct (is_file exts x); cbn [is_dir_kind negb List.length]; rewrite IH; reflexivity.
Qed.

Lemma count_files_entries g :
  List.length (filter (fun e => is_empty_file (snd e)) (entries exts (pth tc) g)) = count_files exts g.
Proof.
  unfold count_files, entries. rewrite <- (gnodes_gpre g 1).
  induction (gpre 1 g) as [|[d x] l IH]; [reflexivity|]. cbn [map filter fst snd].
  unfold kind_of at 1. destruct (is_file exts x); cbn [is_empty_file List.length]; rewrite IH; reflexivity.
Qed.

(* under each root the new file system holds exactly count_dirs directories and count_files
   empty files (nothing existed there before) *)
Theorem counts_after g : In g gs ->
  let under_root := filter (fun e => under (tjoin (pth tc) (gpath g)) (fst e)) f' in
  List.length (filter (fun e => is_dir_kind (snd e)) under_root) = count_dirs exts g /\
  List.length (filter (fun e => is_empty_file (snd e)) under_root) = count_files exts g /\
  List.length under_root = count_dirs exts g + count_files exts g.
Proof.
  intros Hg. pose proof Hw as Hw'. rewrite Forall_forall in Hw'. cbn zeta.
  rewrite root_tjoin by auto. rewrite (under_root_entries g Hg).
  rewrite count_dirs_entries, count_files_entries. repeat split.
  unfold count_dirs, count_files, entries. rewrite map_length, <- (gnodes_gpre g 1), map_length.
  induction (gpre 1 g) as [|[d x] l IH]; [reflexivity|]. cbn [filter snd List.length].
  destruct (is_file exts x); cbn [negb List.length]; lia.
Qed.

End After.

(* when the target directory already existed, the appended entries are exactly the nodes *)
Theorem added_target_exists exts tc f gs :
  all_dirs f [] tc -> added exts tc f gs = flat_map (entries exts (pth tc)) gs.
Proof. intros H. unfold added. rewrite (miss_all_dirs f tc [] H). destruct gs; reflexivity. Qed.

(* ================= well-formedness of the file system is preserved ================= *)

Lemma wf_g_path pre x : wf_g pre x -> gpath x = join (pre ++ [gname x]).
Proof. intros H. inversion H; subst. reflexivity. Qed.

(* a node of a well-formed tree is the root or has a parent node with children *)
Lemma gnodes_wf : forall g pre x, wf_g pre g -> In x (gnodes g) ->
  x = g \/ exists y m, In y (gnodes g) /\ eok m /\ wf_g (pre ++ m) y /\ wf_g (pre ++ m ++ [gname y]) x /\ gkids y <> [].
Proof.
  induction g as [n b p ks IH] using gtree_ind'. intros pre x Hw Hx.
  inversion Hw as [? ? ? ? ? Hn Hr Hpath Hnd Hks]; subst.
  rewrite gnodes_eq in Hx. destruct Hx as [Hx|Hx]; [left; auto|]. right.
  apply in_flat_map in Hx as [k [Hk Hx]]. rewrite Forall_forall in IH, Hks.
  destruct (IH k Hk (pre ++ [n]) x (Hks k Hk) Hx) as [E|[y [m [Hy [Hm [Wy [Wx Hne]]]]]]].
  - subst x. exists (G n b (join (pre ++ [n])) ks), []. rewrite gnodes_eq. cbn [gname gkids app].
    rewrite app_nil_r. split; [|split; [|split; [|split]]]; [left; reflexivity|constructor|exact Hw|apply Hks; exact Hk|].
    intros X. subst ks. destruct Hk.
  - exists y, (n :: m). rewrite gnodes_eq. split; [|split; [|split; [|split]]].
    + right. apply in_flat_map. exists k. auto.
    + constructor; assumption.
    + rewrite <- app_assoc in Wy. exact Wy.
    + rewrite <- app_assoc in Wx. exact Wx.
    + exact Hne.
Qed.

Lemma last_split {A} (a : list A) : a <> [] -> exists a' c, a = a' ++ [c].
Proof. intros H. destruct a as [|x a'] using rev_ind; [congruence|]. eauto. Qed.

Ltac ne := let X := fresh in intros X; apply (f_equal (@List.length str)) in X; rewrite ?app_length in X; cbn in X; lia.

Section Preserve.
Variables (exts : list str) (tc : list str) (gs : list gtree) (f : fsmap).
Hypothesis Htc : eok tc.
Hypothesis Atc : acc tc.
Hypothesis Hw : Forall (wf_g []) gs.
Hypothesis Hnd : NoDup (map gname gs).
Hypothesis Hok : fs_ok f.
Hypothesis Hd : dirs_or_none f [] tc.
Hypothesis Hb : forall g, In g gs -> below f (tc ++ [gname g]).

Let f' := f ++ added exts tc f gs.

Lemma prefix_parent a : gs <> [] -> pfx a tc ->
  pth a = [c_dot] \/ lookup (pth a) f' = Some KDir.
Proof.
  intros Hne Ha. destruct a as [|x a']; [left; reflexivity|]. right.
  assert (H : all_dirs f' [] tc) by (apply after_all_dirs; assumption).
  apply (H (x :: a') Ha). discriminate.
Qed.

Theorem fs_ok_after : fs_ok f'.
Proof.
  destruct Hok as [Hnodup Hc]. split.
  - unfold f'. rewrite map_app. apply nodup_app; [exact Hnodup|apply added_nodup; assumption|].
    intros p Hp X. apply in_map_iff in X as [[q k] [E Hin]]. cbn [fst] in E. subst q.
    apply (added_fresh exts tc Htc f gs p k Hw Hb) in Hin. apply lookup_none_notin in Hin. contradiction.
  - intros p k L. unfold f' in L. rewrite lookup_app in L. destruct (lookup p f) as [k0|] eqn:L0.
    + destruct (Hc p k0 L0) as [K [D|D]]; split; auto. right. apply lookup_app_some. exact D.
    + apply lookup_in in L. apply (added_in exts tc) in L.
      destruct L as [[g [x [Hg [Hx [Hp Hkx]]]]]|[Hne [Hkd [_ [a [Ha [Hna Hp]]]]]]].
      * assert (Hgne : gs <> []) by (intros X; subst gs; destruct Hg).
        pose proof Hw as Hw'. rewrite Forall_forall in Hw'.
        destruct (gnodes_wf g [] x (Hw' g Hg) Hx) as [E|[y [m [Hy [Hm [Wy [Wx Hkids]]]]]]].
        -- subst x. destruct (wf_g_name _ _ (Hw' g Hg)) as [Hn _]. rewrite root_tjoin in Hp by auto. subst p. split.
           ++ exists (tc ++ [gname g]). repeat split; [destruct tc; discriminate|eo|apply pth_join; destruct tc; discriminate].
           ++ rewrite dirname_pth by eo. apply prefix_parent; [exact Hgne|exists []; rewrite app_nil_r; reflexivity].
        -- cbn [app] in Wy, Wx. destruct (wf_g_name _ _ Wy) as [Hyn _]. destruct (wf_g_name _ _ Wx) as [Hxn _].
           rewrite (wf_g_path _ _ Wx) in Hp. rewrite tjoin_node in Hp by (auto; eo). subst p. split.
           ++ exists (tc ++ (m ++ [gname y]) ++ [gname x]). split; [ne|split; [eo|apply pth_join; ne]].
           ++ right. rewrite app_assoc. rewrite dirname_pth by (rewrite <- app_assoc; eo).
              rewrite <- tjoin_node by auto. rewrite <- (wf_g_path _ _ Wy).
              apply (mkdir_new exts tc gs f Htc Hw Hnd).
              ** apply (mkdir_nodes_new exts tc gs f Htc Hw Hb g y Hg Hy).
              ** left. exists g, y. repeat split; [exact Hg|exact Hy|].
                 unfold kind_of, is_file. destruct (gkids y); [congruence|reflexivity].
      * subst p. destruct (last_split a Hna) as [a' [c ->]].
        assert (Hea : eok (a' ++ [c])) by (apply (pfx_eok [] tc _ Htc Ha)). split.
        -- exists (a' ++ [c]). repeat split; [exact Hna|exact Hea|apply pth_join; exact Hna].
        -- rewrite dirname_pth by exact Hea. apply prefix_parent; [exact Hne|].
           destruct Ha as [b0 E]. exists ([c] ++ b0). rewrite E, <- app_assoc. reflexivity.
Qed.

End Preserve.

(* ================= the whole property, for forests grown from trees ================= *)

Definition per_root_counts (exts : list str) (target : str) (f' : fsmap) (g : gtree) : Prop :=
  let under_root := filter (fun e => under (tjoin target (gpath g)) (fst e)) f' in
  List.length (filter (fun e => is_dir_kind (snd e)) under_root) = count_dirs exts g /\
  List.length (filter (fun e => is_empty_file (snd e)) under_root) = count_files exts g /\
  List.length under_root = count_dirs exts g + count_files exts g.

Theorem mkdir_exact_grown exts tc gs f :
  eok tc -> acc tc -> Forall (wf_g []) gs -> NoDup (map gname gs) ->
  fs_ok f ->
  (forall g, In g gs -> stat f (tjoin (pth tc) (gpath g)) = StNone) ->
  let f' := f ++ added exts tc f gs in
  (* (a) success *)
  mkdirer exts (dir_of tc) f gs = (f', Ok tt) /\
  (* (b) nothing that existed changed *)
  (forall p k, lookup p f = Some k -> lookup p f' = Some k) /\
  (* (c) exactly the node paths and the target's own prefixes are new *)
  (forall p k, lookup p f = None ->
     (lookup p f' = Some k <->
      (exists g x, In g gs /\ In x (gnodes g) /\ p = tjoin (pth tc) (gpath x) /\ k = kind_of exts x) \/
      (gs <> [] /\ k = KDir /\ exists a, pfx a tc /\ a <> [] /\ p = pth a))) /\
  (forall g x, In g gs -> In x (gnodes g) -> lookup (tjoin (pth tc) (gpath x)) f = None) /\
  (* (d) verification passes, strict or not; the counters; the file system stays well formed *)
  (forall strict, verifier strict (pth tc) f' gs = Ok tt) /\
  (forall g, In g gs -> per_root_counts exts (pth tc) f' g) /\
  fs_ok f' /\
  (all_dirs f [] tc -> f' = f ++ flat_map (entries exts (pth tc)) gs).
Proof.
  intros Htc Atc Hw Hnd Hok Hs f'. destruct Hok as [Hnodup Hc].
  destruct (mkdir_creates_exactly exts (dir_of tc) tc gs f (target_dir_of tc Htc) Htc Atc Hw Hnd Hc Hs)
    as [Ca [Cb [Cc Cn]]].
  split; [exact Ca|]. split; [exact Cb|]. split; [exact Cc|]. split; [exact Cn|].
  destruct (derive_hyps f tc gs Hc Htc Hw Hs) as [Hd Hb].
  destruct gs as [|g0 gs'].
  - unfold f', added. cbn [flat_map app]. rewrite app_nil_r.
    split; [reflexivity|]. split; [intros g []|]. split; [split; assumption|reflexivity].
  - specialize (Hd ltac:(discriminate)). pose proof (fs_closed_keys_ok f Hnodup Hc) as Hk.
    split; [intros strict; apply verify_after; assumption|].
    split; [intros g Hg; apply (counts_after exts tc (g0 :: gs') f); assumption|].
    split; [apply fs_ok_after; [assumption..|split; assumption|assumption|assumption]|].
    intros Hall. unfold f'. rewrite added_target_exists by exact Hall. reflexivity.
Qed.

Theorem mkdir_exact bf exts tc ts f :
  eok tc -> acc tc ->
  Forall (fun t => Forall name_ok (tnames t)) ts -> all_nodup ts -> NoDup (map tname ts) ->
  fs_ok f ->
  (forall t, In t ts -> stat f (tjoin (pth tc) (tname t)) = StNone) ->
  let gs := map (grow_root bf) ts in
  let f' := f ++ added exts tc f gs in
  mkdirer exts (dir_of tc) f gs = (f', Ok tt) /\
  (forall p k, lookup p f = Some k -> lookup p f' = Some k) /\
  (forall p k, lookup p f = None ->
     (lookup p f' = Some k <->
      (exists g x, In g gs /\ In x (gnodes g) /\ p = tjoin (pth tc) (gpath x) /\ k = kind_of exts x) \/
      (gs <> [] /\ k = KDir /\ exists a, pfx a tc /\ a <> [] /\ p = pth a))) /\
  (forall g x, In g gs -> In x (gnodes g) -> lookup (tjoin (pth tc) (gpath x)) f = None) /\
  (forall strict, verifier strict (pth tc) f' gs = Ok tt) /\
  (forall g, In g gs -> per_root_counts exts (pth tc) f' g) /\
  fs_ok f' /\
  (all_dirs f [] tc -> f' = f ++ flat_map (entries exts (pth tc)) gs).
Proof.
  intros Htc Atc Hn Hd Hr Hok Hs gs.
  destruct (grow_roots_wf bf ts Hn Hd Hr) as [Hw Hnd].
  apply mkdir_exact_grown; try assumption.
  intros g Hg. unfold gs in Hg. apply in_map_iff in Hg as [t [E Ht]]. subst g.
  rewrite Forall_forall in Hw. rewrite (root_path (grow_root bf t)) by (apply Hw; apply in_map; exact Ht).
  unfold grow_root. rewrite gname_grow. apply Hs. exact Ht.
Qed.

(* ---------- the hypotheses are satisfiable: a concrete instance ---------- *)
Definition sx (l : list nat) : str := map ch l.
(* tgt / a { m.go, d { } } , b   with exts = [".go"], into the empty file system *)
Definition ex_tc : list str := [sx [116;103;116]].
Definition ex_ts : list tree :=
  [T (sx [97]) [T (sx [109;46;103;111]) []; T (sx [100]) []]; T (sx [98]) []].
Definition ex_exts : list str := [sx [46;103;111]].

Example mkdir_exact_instance :
  mkdirer ex_exts (dir_of ex_tc) [] (map (grow_root default_bfmt) ex_ts) =
  ([(sx [116;103;116], KDir);
    (sx [116;103;116;47;97], KDir);
    (sx [116;103;116;47;97;47;109;46;103;111], KFile true);
    (sx [116;103;116;47;97;47;100], KDir);
    (sx [116;103;116;47;98], KDir)], Ok tt) /\
  [] ++ added ex_exts ex_tc [] (map (grow_root default_bfmt) ex_ts) =
  fst (mkdirer ex_exts (dir_of ex_tc) [] (map (grow_root default_bfmt) ex_ts)).
Proof. split; vm_compute; reflexivity. Qed.

Lemma ex_hyps :
  eok ex_tc /\ acc ex_tc /\ Forall (fun t => Forall name_ok (tnames t)) ex_ts /\ all_nodup ex_ts /\
  NoDup (map tname ex_ts) /\ fs_ok [] /\
  (forall t, In t ex_ts -> stat [] (tjoin (pth ex_tc) (tname t)) = StNone).
Proof.
  repeat match goal with |- _ /\ _ => split end.
  - repeat constructor.
  - repeat constructor.
  - repeat (constructor; try (split; vm_compute; reflexivity)).
  - cbn. repeat split; repeat constructor; cbn; intuition discriminate.
  - cbn. repeat constructor; cbn; intuition discriminate.
  - split; [constructor|]. intros p k L. discriminate.
  - intros t [<-|[<-|[]]]; vm_compute; reflexivity.
Qed.

Print Assumptions mkdir_exact.
Print Assumptions mkdir_exact_grown.
Print Assumptions make_roots_exact.
Print Assumptions verify_after.
Print Assumptions fs_ok_after.
Print Assumptions ex_hyps.
