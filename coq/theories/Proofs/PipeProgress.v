(* Proofs/PipeProgress.v — the call always returns.

   As long as main has not returned some step of Conc/Pipeline.v is enabled (deadlock freedom
   before the return), for ALL send / receive modes (also with Blocking error sends and
   unguarded hand-overs: the pinned code could leak goroutines but its calls still returned),
   provided the pipeline is `live`: it has at least one stage and every stage has at least one
   worker.  Without that hypothesis the statement is false (stuck_without_stage,
   stuck_without_worker below: a send on a channel nobody receives from).

   main_not_stuck        reach p s -> st_main s = None -> exists s', step p s s'   (live p)
   stuck_means_returned  a reachable state without successor has st_main <> None
   call_returns          from every reachable state some run reaches a state where main has
                         returned; with PipeFinite.runs_are_finite every maximal run does
   every_maximal_run_returns
   returned_nil_not_cancelled   main returns nil only if the caller had not cancelled (D21) *)
From Coq Require Import List Arith Bool Lia.
Import ListNotations.
From GT Require Import Conc.Pipeline.
From GT.Proofs Require PipeFinite.
From GT.Proofs Require Import PipeNoLeak.

(* ------------------------------------------------------------------ *)
(* lists, upd                                                           *)
(* ------------------------------------------------------------------ *)

Lemma nth_upd_cases : forall (A : Type) (f : A -> A) (l : list A) (n m : nat) (y : A),
  nth_error (upd n f l) m = Some y ->
  (m = n /\ exists x, nth_error l n = Some x /\ y = f x) \/
  (m <> n /\ nth_error l m = Some y).
Proof.
  intros A f l n m y H. destruct (Nat.eq_dec n m) as [E | NE].
  - subst m. left. split; [reflexivity|]. rewrite nth_error_upd_eq in H.
    destruct (nth_error l n) as [x|]; cbn [option_map] in H; [|discriminate H].
    exists x. split; [reflexivity|]. congruence.
  - right. rewrite nth_error_upd_neq in H by exact NE. split; [congruence | exact H].
Qed.

Lemma in_upd : forall (A : Type) (f : A -> A) (l : list A) (n : nat) (y : A),
  In y (upd n f l) -> In y l \/ exists x, nth_error l n = Some x /\ y = f x.
Proof.
  intros A f l n y Hin. apply In_nth_error in Hin. destruct Hin as [m Hm].
  apply nth_upd_cases in Hm. destruct Hm as [(_ & x & Hx & E) | (_ & Hm)].
  - right. exists x. split; assumption.
  - left. eapply nth_error_In. exact Hm.
Qed.

Lemma nth_lt : forall (A : Type) (l : list A) (n : nat) (x : A),
  nth_error l n = Some x -> n < length l.
Proof.
  intros A l n x H. apply nth_error_Some. rewrite H. discriminate.
Qed.

Lemma nth_ex : forall (A : Type) (l : list A) (n : nat),
  n < length l -> exists x, nth_error l n = Some x.
Proof.
  intros A l n H. destruct (nth_error l n) as [x|] eqn:E.
  - exists x. reflexivity.
  - apply nth_error_None in E. lia.
Qed.

(* ------------------------------------------------------------------ *)
(* the cancellation flags only go up                                    *)
(* ------------------------------------------------------------------ *)

Lemma ectx_false : forall s,
  ectx_done s = false <->
  st_ecancel s = false /\ st_ucancel s = false /\ st_icancel s = false.
Proof.
  intros s. unfold ectx_done, ctx_done.
  destruct (st_ecancel s), (st_ucancel s), (st_icancel s); cbn [orb]; intuition congruence.
Qed.

Lemma ectx_ctx : forall s, ectx_done s = false -> ctx_done s = false.
Proof.
  intros s H. apply ectx_false in H. destruct H as (_ & Hu & Hi).
  unfold ctx_done. rewrite Hu, Hi. reflexivity.
Qed.

Lemma step_ectx_mono : forall p s s', step p s s' -> ectx_done s' = false -> ectx_done s = false.
Proof.
  intros p s s' H. rewrite !ectx_false.
  inversion H; subst; clear H; sproj; intros (He & Hu & Hi); try discriminate;
    repeat split; assumption.
Qed.

(* ------------------------------------------------------------------ *)
(* closed inputs stay closed                                            *)
(* ------------------------------------------------------------------ *)

Lemma upd_closed_mono : forall (l : list sst) k f m t,
  (forall x, s_closed x = true -> s_closed (f x) = true) ->
  (exists t0, nth_error l m = Some t0 /\ (s_closed t = true -> s_closed t0 = true)) ->
  exists t', nth_error (upd k f l) m = Some t' /\ (s_closed t = true -> s_closed t' = true).
Proof.
  intros l k f m t Hf (t0 & Ht0 & Hc).
  destruct (Nat.eq_dec k m) as [E | NE].
  - subst m. exists (f t0). rewrite nth_error_upd_eq, Ht0. split; [reflexivity|].
    intros H. apply Hf. apply Hc. exact H.
  - exists t0. rewrite nth_error_upd_neq by exact NE. split; assumption.
Qed.

Lemma step_stage_mono : forall p s s' m t,
  step p s s' -> nth_error (st_stages s) m = Some t ->
  exists t', nth_error (st_stages s') m = Some t' /\ (s_closed t = true -> s_closed t' = true).
Proof.
  intros p s s' m t H Hm.
  assert (Hbase : exists t0, nth_error (st_stages s) m = Some t0 /\
                             (s_closed t = true -> s_closed t0 = true)).
  { exists t. split; [exact Hm | auto]. }
  inversion H; subst; clear H; sproj; try exact Hbase;
    repeat (apply upd_closed_mono; [intros x Hx; cbn; first [exact Hx | reflexivity] |]);
    exact Hbase.
Qed.

Lemma input_closed_mono : forall p s s' n,
  step p s s' -> input_closed s n -> input_closed s' n.
Proof.
  intros p s s' [|m] Hstep H; cbn [input_closed] in *.
  - inversion Hstep; subst; clear Hstep; sproj; try assumption; try reflexivity; congruence.
  - destruct H as (t & Ht & Hc).
    destruct (step_stage_mono p s s' m t Hstep Ht) as (t' & Ht' & Hk).
    exists t'. split; [exact Ht' | apply Hk; exact Hc].
Qed.

(* ------------------------------------------------------------------ *)
(* the progress invariant                                               *)
(* ------------------------------------------------------------------ *)

(* a worker of stage n has returned without the context being done and without an error in the
   buffer only because its input was closed *)
Definition done_ok (s : state) (n : nat) (t : sst) : Prop :=
  s_ebuf t = None -> In WDone (s_ws t) -> input_closed s n.

Definition closed_empty (s : state) (n : nat) : Prop :=
  exists t, nth_error (st_stages s) n = Some t /\ s_closed t = true /\ s_ebuf t = None.

Record pinv (p : params) (s : state) : Prop := {
  (* a worker handing an item on is not in the last stage *)
  pi_out : forall n t i, nth_error (st_stages s) n = Some t -> In (WOut i) (s_ws t) ->
           S n < length (p_stages p);
  (* every reader that returned an error cancelled the errgroup's context *)
  pi_readers : st_ecancel s = false ->
               forall r, In r (st_readers s) -> r = RWait \/ r = RDone None;
  (* a reader returned nil only because its channel was closed (and drained) *)
  pi_r0 : nth_error (st_readers s) 0 = Some (RDone None) -> st_src s = SDone;
  pi_rS : forall n, nth_error (st_readers s) (S n) = Some (RDone None) -> closed_empty s n;
  pi_done : ectx_done s = false ->
            forall n t, nth_error (st_stages s) n = Some t -> done_ok s n t
}.

(* --- pi_out --- *)

Definition out_ok (p : params) (l : list sst) : Prop :=
  forall n t i, nth_error l n = Some t -> In (WOut i) (s_ws t) -> S n < length (p_stages p).

Lemma out_ok_change : forall p l n t f ws' x y,
  out_ok p l -> nth_error l n = Some t -> pool_change (s_ws t) ws' x y -> s_ws (f t) = ws' ->
  (forall i, y = WOut i -> S n < length (p_stages p)) ->
  out_ok p (upd n f l).
Proof.
  intros p l n t f ws' x y Hok Hn Hpc Hf Hy m t' i Hm Hin.
  apply nth_upd_cases in Hm. destruct Hm as [(-> & x0 & Hx0 & ->) | (_ & Hm)].
  - rewrite Hn in Hx0. injection Hx0 as <-. rewrite Hf in Hin.
    destruct (pc_in_new _ _ _ _ _ Hpc Hin) as [E | Hold].
    + apply (Hy i). symmetry. exact E.
    + eapply Hok; eassumption.
  - eapply Hok; eassumption.
Qed.

Lemma out_ok_same : forall p l n f,
  out_ok p l -> (forall t, s_ws (f t) = s_ws t) -> out_ok p (upd n f l).
Proof.
  intros p l n f Hok Hf m t' i Hm Hin.
  apply nth_upd_cases in Hm. destruct Hm as [(-> & x0 & Hx0 & ->) | (_ & Hm)].
  - rewrite Hf in Hin. eapply Hok; eassumption.
  - eapply Hok; eassumption.
Qed.

Ltac out_chg :=
  eapply out_ok_change; [eassumption | eassumption | eassumption | reflexivity |].

Lemma step_out : forall p s s', step p s s' ->
  out_ok p (st_stages s) -> out_ok p (st_stages s').
Proof.
  intros p s s' H Hok. inversion H; subst; clear H; sproj; try exact Hok.
  - (* src_emit *) out_chg. intros; discriminate.
  - (* work_ok *)
    out_chg. intros i0 E.
    destruct (S n =? length (p_stages p)) eqn:Eq; [discriminate E|].
    apply Nat.eqb_neq in Eq.
    match goal with Hd : nth_error (p_stages p) n = Some _ |- _ =>
      pose proof (nth_lt _ _ _ _ Hd) end. lia.
  - (* work_fail *) out_chg. intros; discriminate.
  - (* err_send *)
    out_chg. intros i0 E. unfold after_err in E. destruct (d_exits_on_err d); discriminate E.
  - (* err_drop *)
    out_chg. intros i0 E. unfold after_err in E. destruct (d_exits_on_err d); discriminate E.
  - (* handoff *)
    eapply out_ok_change with (t := t2) (x := WIdle) (y := WHold i).
    + out_chg. intros; discriminate.
    + rewrite nth_error_upd_neq by lia. eassumption.
    + eassumption.
    + reflexivity.
    + intros; discriminate.
  - (* handoff_abort *) out_chg. intros; discriminate.
  - (* exit_closed *) out_chg. intros; discriminate.
  - (* exit_ctx *) out_chg. intros; discriminate.
  - (* lock *) out_chg. intros; discriminate.
  - (* write *) out_chg. intros; discriminate.
  - (* unlock *) out_chg. intros; discriminate.
  - (* closer *) apply out_ok_same; [exact Hok | reflexivity].
  - (* reader_take *) apply out_ok_same; [exact Hok | reflexivity].
Qed.

(* --- pi_readers --- *)

Lemma step_readers : forall p s s', step p s s' ->
  (st_ecancel s = false -> forall r, In r (st_readers s) -> r = RWait \/ r = RDone None) ->
  (st_ecancel s' = false -> forall r, In r (st_readers s') -> r = RWait \/ r = RDone None).
Proof.
  intros p s s' H IH. inversion H; subst; clear H; sproj; try exact IH;
    try (intros He; discriminate He).
  - (* reader_closed *)
    intros He r Hin. apply in_upd in Hin. destruct Hin as [Hin | (x & _ & ->)].
    + apply IH; assumption.
    + right. reflexivity.
  - (* reader0_closed *)
    intros He r Hin.
    match goal with Hr : st_readers s = _ |- _ => rewrite Hr in IH end.
    destruct Hin as [<- | Hin].
    + right. reflexivity.
    + apply IH; [exact He | right; exact Hin].
Qed.

(* --- pi_r0 --- *)

Lemma step_r0 : forall p s s', step p s s' ->
  (nth_error (st_readers s) 0 = Some (RDone None) -> st_src s = SDone) ->
  (nth_error (st_readers s') 0 = Some (RDone None) -> st_src s' = SDone).
Proof.
  intros p s s' H IH. inversion H; subst; clear H; sproj; try exact IH; try reflexivity.
  - (* src_emit *)
    intros Hr. specialize (IH Hr). congruence.
  - (* reader_take *)
    rewrite nth_error_upd_neq by lia. exact IH.
  - (* reader_closed *)
    rewrite nth_error_upd_neq by lia. exact IH.
  - (* reader0_closed *)
    intros _. assumption.
  - (* reader_ctx *)
    intros Hr. apply nth_upd_cases in Hr. destruct Hr as [(_ & x & _ & E) | (_ & Hr)].
    + discriminate E.
    + apply IH. exact Hr.
Qed.

(* --- pi_rS --- *)

Lemma closed_empty_upd : forall (l : list sst) k f n,
  (exists t, nth_error l n = Some t /\ s_closed t = true /\ s_ebuf t = None) ->
  (forall t, nth_error l k = Some t -> s_closed t = true -> s_ebuf t = None ->
             s_closed (f t) = true /\ s_ebuf (f t) = None) ->
  exists t, nth_error (upd k f l) n = Some t /\ s_closed t = true /\ s_ebuf t = None.
Proof.
  intros l k f n (t & Ht & Hc & Hb) Hf.
  destruct (Nat.eq_dec k n) as [E | NE].
  - subst n. exists (f t). rewrite nth_error_upd_eq, Ht. split; [reflexivity|].
    apply Hf; assumption.
  - exists t. rewrite nth_error_upd_neq by exact NE. repeat split; assumption.
Qed.

Ltac ce_keep :=
  apply closed_empty_upd; [| intros x _ Hxc Hxb; cbn; split; first [exact Hxc | exact Hxb | reflexivity]].

Lemma step_rS : forall p s s', step p s s' -> inv p s ->
  (forall n, nth_error (st_readers s) (S n) = Some (RDone None) -> closed_empty s n) ->
  (forall n, nth_error (st_readers s') (S n) = Some (RDone None) -> closed_empty s' n).
Proof.
  intros p s s' H Hinv IH n0. unfold closed_empty in *.
  inversion H; subst; clear H; sproj; try exact (IH n0);
    try (intros Hr0; specialize (IH n0 Hr0); ce_keep; exact IH; fail).
  - (* src_err *)
    match goal with Hr : st_readers s = _ |- _ => rewrite Hr in IH end.
    cbn [nth_error] in *. exact (IH n0).
  - (* err_send *)
    intros Hr0. specialize (IH n0 Hr0). apply closed_empty_upd; [exact IH|].
    intros x Hx Hxc _. exfalso.
    match goal with Hn : nth_error (st_stages s) n = Some t |- _ =>
      rewrite Hn in Hx; injection Hx as <- end.
    pose proof (proj1 (inv_stages _ _ Hinv n t ltac:(assumption)) Hxc) as Hall.
    match goal with Hpc : pool_change (s_ws t) _ _ _ |- _ =>
      pose proof (Hall _ (pc_in_old _ _ _ _ Hpc)) as E end.
    discriminate E.
  - (* handoff *)
    intros Hr0. specialize (IH n0 Hr0). ce_keep. ce_keep. exact IH.
  - (* reader_take *)
    intros Hr0. apply nth_upd_cases in Hr0. destruct Hr0 as [(_ & x & _ & E) | (_ & Hr0)].
    + discriminate E.
    + specialize (IH n0 Hr0). ce_keep. exact IH.
  - (* reader_closed *)
    intros Hr0. apply nth_upd_cases in Hr0. destruct Hr0 as [(E & _) | (_ & Hr0)].
    + injection E as ->. exists t. repeat split; assumption.
    + exact (IH n0 Hr0).
  - (* reader0_closed *)
    match goal with Hr : st_readers s = _ |- _ => rewrite Hr in IH end.
    cbn [nth_error] in *. exact (IH n0).
  - (* reader_ctx *)
    intros Hr0. apply nth_upd_cases in Hr0. destruct Hr0 as [(_ & x & _ & E) | (_ & Hr0)].
    + discriminate E.
    + exact (IH n0 Hr0).
Qed.

(* --- pi_done --- *)

Ltac sproj_in H :=
  cbn [with_stages st_pending st_src st_src_err_pending st_stages st_readers st_main
       st_first_err st_ucancel st_icancel st_ecancel st_log] in H.

Ltac done_chg Hn0 IH Hbuf Hdone :=
  apply nth_upd_cases in Hn0;
  let x0 := fresh "x0" in let Hx0 := fresh "Hx0" in
  destruct Hn0 as [(-> & x0 & Hx0 & ->) | (_ & Hn0)]; [| eapply IH; eassumption];
  match goal with Hn : nth_error (st_stages _) _ = Some _ |- _ =>
    rewrite Hn in Hx0; injection Hx0 as <- end;
  cbn [set_ws set_ebuf set_closed s_ws s_ebuf] in Hbuf, Hdone.

Ltac done_new IH Hdone :=
  match goal with Hpc : pool_change (s_ws _) _ _ _ |- _ =>
    let Hold := fresh "Hold" in
    destruct (pc_in_new _ _ _ _ _ Hpc Hdone) as [E | Hold]; [| eapply IH; eassumption]
  end.

Lemma step_done : forall p s s', step p s s' ->
  (ectx_done s = false -> forall n t, nth_error (st_stages s) n = Some t -> done_ok s n t) ->
  (ectx_done s' = false -> forall n t, nth_error (st_stages s') n = Some t -> done_ok s' n t).
Proof.
  intros p s s' Hstep IH He' n0 t0 Hn0 Hbuf Hdone.
  apply (input_closed_mono p s s' n0 Hstep).
  pose proof (step_ectx_mono _ _ _ Hstep He') as He. specialize (IH He).
  pose proof (ectx_ctx _ He) as Hctx. clear He.
  inversion Hstep; subst; clear Hstep; sproj_in Hn0;
    try (eapply IH; eassumption; fail);
    try congruence.
  - (* src_emit *) done_chg Hn0 IH Hbuf Hdone. done_new IH Hdone. discriminate E.
  - (* work_ok *)
    done_chg Hn0 IH Hbuf Hdone. done_new IH Hdone. destruct (S n =? length (p_stages p)); discriminate E.
  - (* work_fail *) done_chg Hn0 IH Hbuf Hdone. done_new IH Hdone. discriminate E.
  - (* err_send *) done_chg Hn0 IH Hbuf Hdone. discriminate Hbuf.
  - (* handoff *)
    apply nth_upd_cases in Hn0. destruct Hn0 as [(-> & x0 & Hx0 & ->) | (_ & Hn0)].
    + rewrite nth_error_upd_neq in Hx0 by lia.
      match goal with Hn : nth_error (st_stages s) (S n) = Some _ |- _ =>
        rewrite Hn in Hx0; injection Hx0 as <- end.
      cbn [set_ws s_ws s_ebuf] in Hbuf, Hdone.
      done_new IH Hdone. discriminate E.
    + done_chg Hn0 IH Hbuf Hdone. done_new IH Hdone. discriminate E.
  - (* exit_closed *) done_chg Hn0 IH Hbuf Hdone. done_new IH Hdone. assumption.
  - (* lock *) done_chg Hn0 IH Hbuf Hdone. done_new IH Hdone. discriminate E.
  - (* write *) done_chg Hn0 IH Hbuf Hdone. done_new IH Hdone. discriminate E.
  - (* unlock *) done_chg Hn0 IH Hbuf Hdone. done_new IH Hdone. discriminate E.
  - (* closer *) done_chg Hn0 IH Hbuf Hdone. eapply IH; eassumption.
  - (* reader_take *)
    exfalso. apply ectx_false in He'. sproj_in He'. destruct He' as (E & _). discriminate E.
Qed.

(* --- init, preservation --- *)

Lemma pinv_init : forall p, pinv p (init p).
Proof.
  intros p. constructor; cbn [init st_stages st_readers st_ecancel st_src].
  - intros n t i Hn Hin. exfalso.
    rewrite nth_error_map in Hn. destruct (nth_error (p_stages p) n) as [d|]; [|discriminate Hn].
    cbn [option_map] in Hn. injection Hn as <-. cbn [init_stage s_ws] in Hin.
    apply in_repeat_eq in Hin. discriminate Hin.
  - intros _ r Hin. left. eapply in_repeat_eq. exact Hin.
  - intros Hr. apply nth_error_In in Hr. apply in_repeat_eq in Hr. discriminate Hr.
  - intros n Hr. apply nth_error_In in Hr. apply in_repeat_eq in Hr. discriminate Hr.
  - intros _ n t Hn _ Hin. exfalso.
    rewrite nth_error_map in Hn. destruct (nth_error (p_stages p) n) as [d|]; [|discriminate Hn].
    cbn [option_map] in Hn. injection Hn as <-. cbn [init_stage s_ws] in Hin.
    apply in_repeat_eq in Hin. discriminate Hin.
Qed.

Lemma pinv_step : forall p s s', step p s s' -> inv p s -> pinv p s -> pinv p s'.
Proof.
  intros p s s' Hstep Hinv [Hout Hrd Hr0 HrS Hdone]. constructor.
  - exact (step_out p s s' Hstep Hout).
  - exact (step_readers p s s' Hstep Hrd).
  - exact (step_r0 p s s' Hstep Hr0).
  - exact (step_rS p s s' Hstep Hinv HrS).
  - exact (step_done p s s' Hstep Hdone).
Qed.

Theorem reach_pinv : forall p s, reach p s -> pinv p s.
Proof.
  intros p s H. induction H as [|s s' Hr IH Hstep].
  - apply pinv_init.
  - exact (pinv_step p s s' Hstep (reach_inv p s Hr) IH).
Qed.

(* ------------------------------------------------------------------ *)
(* searching the finite lists                                           *)
(* ------------------------------------------------------------------ *)

(* a quiet worker waits for input or has returned *)
Definition quiet (w : wst) : Prop := w = WIdle \/ w = WDone.
Definition quiet_ws (ws : list wst) : Prop := forall w, In w ws -> quiet w.

Lemma quiet_dec : forall w, quiet w \/ ~ quiet w.
Proof.
  intros w. unfold quiet.
  destruct w; try (left; auto; fail); right; intros [E | E]; discriminate E.
Qed.

Lemma quiet_ws_dec : forall ws : list wst,
  quiet_ws ws \/ exists l1 w l2, ws = l1 ++ w :: l2 /\ ~ quiet w.
Proof.
  induction ws as [|w r IH].
  - left. intros w [].
  - destruct (quiet_dec w) as [Hq | Hnq].
    + destruct IH as [Hall | (l1 & w0 & l2 & E & Hw0)].
      * left. intros w0 [E | Hin]; [subst w0; exact Hq | apply Hall; exact Hin].
      * right. exists (w :: l1), w0, l2. split; [rewrite E; reflexivity | exact Hw0].
    + right. exists [], w, r. split; [reflexivity | exact Hnq].
Qed.

(* the last stage with a worker that is neither idle nor done *)
Lemma last_busy : forall l : list sst,
  (forall n t, nth_error l n = Some t -> quiet_ws (s_ws t)) \/
  exists n t l1 w l2, nth_error l n = Some t /\ s_ws t = l1 ++ w :: l2 /\ ~ quiet w /\
    forall m t2, n < m -> nth_error l m = Some t2 -> quiet_ws (s_ws t2).
Proof.
  induction l as [|t r IH].
  - left. intros [|n] t Hn; discriminate Hn.
  - destruct IH as [Hall | (n & t' & l1 & w & l2 & Hn & Hws & Hw & Hafter)].
    + destruct (quiet_ws_dec (s_ws t)) as [Hq | (l1 & w & l2 & Hws & Hw)].
      * left. intros [|n] t' Hn; cbn [nth_error] in Hn.
        -- injection Hn as <-. exact Hq.
        -- eapply Hall. exact Hn.
      * right. exists 0, t, l1, w, l2. repeat split; try assumption.
        intros [|m] t2 Hlt Hm; [lia|]. cbn [nth_error] in Hm. eapply Hall. exact Hm.
    + right. exists (S n), t', l1, w, l2. repeat split; try assumption.
      intros [|m] t2 Hlt Hm; [lia|]. cbn [nth_error] in Hm.
      eapply (Hafter m); [lia | exact Hm].
Qed.

(* the first stage whose closer has not run *)
Lemma first_open : forall l : list sst,
  (forall n t, nth_error l n = Some t -> s_closed t = true) \/
  exists n t, nth_error l n = Some t /\ s_closed t = false /\
    forall m t2, m < n -> nth_error l m = Some t2 -> s_closed t2 = true.
Proof.
  induction l as [|t r IH].
  - left. intros [|n] t Hn; discriminate Hn.
  - destruct (s_closed t) eqn:Ec.
    + destruct IH as [Hall | (n & t' & Hn & Hc & Hbefore)].
      * left. intros [|n] t' Hn; cbn [nth_error] in Hn.
        -- injection Hn as <-. exact Ec.
        -- eapply Hall. exact Hn.
      * right. exists (S n), t'. repeat split; try assumption.
        intros [|m] t2 Hlt Hm; cbn [nth_error] in Hm.
        -- injection Hm as <-. exact Ec.
        -- eapply (Hbefore m); [lia | exact Hm].
    + right. exists 0, t. repeat split; try assumption. intros m t2 Hlt. lia.
Qed.

Lemma find_ebuf : forall l : list sst,
  (forall n t, nth_error l n = Some t -> s_ebuf t = None) \/
  exists n t i, nth_error l n = Some t /\ s_ebuf t = Some i.
Proof.
  induction l as [|t r IH].
  - left. intros [|n] t Hn; discriminate Hn.
  - destruct (s_ebuf t) as [i|] eqn:Eb.
    + right. exists 0, t, i. split; [reflexivity | exact Eb].
    + destruct IH as [Hall | (n & t' & i & Hn & Hb)].
      * left. intros [|n] t' Hn; cbn [nth_error] in Hn.
        -- injection Hn as <-. exact Eb.
        -- eapply Hall. exact Hn.
      * right. exists (S n), t', i. split; assumption.
Qed.

Lemma idle_dec : forall ws : list wst,
  quiet_ws ws -> (exists l1 l2, ws = l1 ++ WIdle :: l2) \/ all_done ws.
Proof.
  induction ws as [|w r IH]; intros Hq.
  - right. intros w [].
  - destruct (Hq w (or_introl eq_refl)) as [-> | ->].
    + left. exists [], r. reflexivity.
    + destruct IH as [(l1 & l2 & E) | Hall].
      * intros w Hin. apply Hq. right. exact Hin.
      * left. exists (WDone :: l1), l2. rewrite E. reflexivity.
      * right. intros w [E | Hin]; [symmetry; exact E | apply Hall; exact Hin].
Qed.

(* ------------------------------------------------------------------ *)
(* live pipelines                                                       *)
(* ------------------------------------------------------------------ *)

(* at least one stage, at least one worker per stage (the Go code starts 10 workers per stage) *)
Definition live_params (p : params) : Prop :=
  p_stages p <> [] /\ forall d, In d (p_stages p) -> 0 < d_workers d.

(* in a live pipeline a pool without idle worker whose workers are all quiet contains a
   worker that has returned *)
Lemma all_done_has_done : forall p s n d t,
  live_params p -> PipeFinite.wf p s ->
  nth_error (p_stages p) n = Some d -> nth_error (st_stages s) n = Some t ->
  all_done (s_ws t) -> In WDone (s_ws t).
Proof.
  intros p s n d t [_ Hlive] Hwf Hd Ht Hall.
  pose proof (PipeFinite.wf_pool_length p s n d t Hwf Hd Ht) as Hlen.
  pose proof (Hlive d (nth_error_In _ _ Hd)) as Hpos.
  destruct (s_ws t) as [|w r] eqn:E.
  - cbn [length] in Hlen. lia.
  - rewrite (Hall w (or_introl eq_refl)). left. reflexivity.
Qed.

(* ------------------------------------------------------------------ *)
(* single goroutines                                                    *)
(* ------------------------------------------------------------------ *)

Lemma hold_can_step : forall p s n d t i l1 l2,
  inv p s -> nth_error (p_stages p) n = Some d -> nth_error (st_stages s) n = Some t ->
  s_ws t = l1 ++ WHold i :: l2 ->
  exists s', step p s s'.
Proof.
  intros p s n d t i l1 l2 Hinv Hd Ht Hws.
  destruct (d_fails d i) eqn:Hf.
  - eexists. eapply step_work_fail; [exact Hd | exact Ht | exact Hf |].
    apply pc_intro. exact Hws.
  - assert (Hok : (d_lock d = false \/ ~ is_last p n) -> exists s', step p s s').
    { intros Hor. eexists.
      eapply step_work_ok; [exact Hd | exact Ht | exact Hf | exact Hor | reflexivity |].
      apply pc_intro. exact Hws. }
    destruct (d_lock d) eqn:Hlock; [|apply Hok; left; reflexivity].
    destruct (Nat.eq_dec (S n) (length (p_stages p))) as [Hlast | Hnl];
      [|apply Hok; right; exact Hnl].
    destruct (crit_dec (s_ws t)) as [Hno | (i' & k' & l1' & l2' & Hws')].
    + eexists.
      eapply step_lock; [exact Hd | exact Ht | exact Hlast | exact Hlock | exact Hf | exact Hno |].
      apply pc_intro. exact Hws.
    + destruct (inv_stages _ _ Hinv n t Ht) as [_ Hk].
      destruct (Hk i' k') as (d' & Hd' & _ & _ & Hle).
      { rewrite Hws'. apply in_elt. }
      rewrite Hd in Hd'. injection Hd' as <-.
      eapply crit_can_step; eassumption.
Qed.

Lemma crit_worker_can_step : forall p s n d t i k l1 l2,
  inv p s -> nth_error (p_stages p) n = Some d -> nth_error (st_stages s) n = Some t ->
  s_ws t = l1 ++ WCrit i k :: l2 ->
  exists s', step p s s'.
Proof.
  intros p s n d t i k l1 l2 Hinv Hd Ht Hws.
  destruct (inv_stages _ _ Hinv n t Ht) as [_ Hk].
  destruct (Hk i k) as (d' & Hd' & _ & _ & Hle).
  { rewrite Hws. apply in_elt. }
  rewrite Hd in Hd'. injection Hd' as <-.
  eapply crit_can_step; eassumption.
Qed.

(* ------------------------------------------------------------------ *)
(* progress without cancellation                                        *)
(* ------------------------------------------------------------------ *)

(* no context is done, no error waits in a buffer, and some goroutine of the pipeline proper
   (the source, a worker or a closer) has not finished: one of them can move.  The search goes
   from the sink towards the source: the last stage with a busy worker, else the source, else
   the first stage that is not closed. *)
Lemma open_progress : forall p s,
  live_params p -> reach p s -> ectx_done s = false ->
  (forall n t, nth_error (st_stages s) n = Some t -> s_ebuf t = None) ->
  (st_src s = SRun \/ exists n t, nth_error (st_stages s) n = Some t /\ s_closed t = false) ->
  exists s', step p s s'.
Proof.
  intros p s Hlive Hreach He Hbuf Hopen.
  pose proof (reach_inv p s Hreach) as Hinv.
  pose proof (reach_pinv p s Hreach) as Hpinv.
  pose proof (PipeFinite.reach_wf p s Hreach) as Hwf.
  pose proof (inv_len _ _ Hinv) as Hlen.
  pose proof (inv_rlen _ _ Hinv) as Hrlen.
  assert (Hdesc : forall n t, nth_error (st_stages s) n = Some t ->
                    exists d, nth_error (p_stages p) n = Some d).
  { intros n t Hn. apply nth_ex. rewrite <- Hlen. eapply nth_lt. exact Hn. }
  destruct (last_busy (st_stages s))
    as [Hq | (n & t & l1 & w & l2 & Hn & Hws & Hbusy & Hafter)].
  2: { (* the last busy worker *)
    destruct (Hdesc n t Hn) as [d Hd].
    destruct w as [| i | i | i | i k |].
    - exfalso. apply Hbusy. left. reflexivity.
    - eapply hold_can_step; eassumption.
    - eexists. eapply step_err_send; [exact Hd | exact Hn | exact (Hbuf n t Hn) |].
      apply pc_intro. exact Hws.
    - (* WOut: the next stage is quiet *)
      assert (Hin : In (WOut i) (s_ws t)) by (rewrite Hws; apply in_elt).
      pose proof (pi_out _ _ Hpinv n t i Hn Hin) as Hlt.
      destruct (nth_ex _ (st_stages s) (S n) ltac:(lia)) as [t2 Hn2].
      destruct (Hdesc (S n) t2 Hn2) as [d2 Hd2].
      destruct (idle_dec (s_ws t2) (Hafter (S n) t2 ltac:(lia) Hn2))
        as [(k1 & k2 & Hws2) | Hall2].
      + eexists. eapply step_handoff; [exact Hn | exact Hn2 | |].
        * apply pc_intro. exact Hws.
        * apply pc_intro. exact Hws2.
      + exfalso.
        pose proof (all_done_has_done p s (S n) d2 t2 Hlive Hwf Hd2 Hn2 Hall2) as Hdone2.
        pose proof (pi_done _ _ Hpinv He (S n) t2 Hn2 (Hbuf _ _ Hn2) Hdone2) as Hic.
        cbn [input_closed] in Hic. destruct Hic as (t' & Ht' & Hc').
        rewrite Hn in Ht'. injection Ht' as <-.
        pose proof (proj1 (inv_stages _ _ Hinv n t Hn) Hc' _ Hin) as E. discriminate E.
    - eapply crit_worker_can_step; eassumption.
    - exfalso. apply Hbusy. right. reflexivity. }
  (* every worker is idle or done *)
  destruct (st_src s) eqn:Esrc.
  - (* the source runs *)
    destruct (st_pending s) as [|i rest] eqn:Epend.
    + destruct (st_src_err_pending s) eqn:Eerr.
      * (* it reports its error to reader 0, which still waits *)
        destruct (st_readers s) as [|r0 rs] eqn:Erd; [cbn [length] in Hrlen; lia|].
        assert (Hr0 : r0 = RWait).
        { apply ectx_false in He. destruct He as (Hec & _ & _).
          destruct (pi_readers _ _ Hpinv Hec r0) as [E | E].
          - rewrite Erd. left. reflexivity.
          - exact E.
          - exfalso. subst r0.
            assert (Hd : st_src s = SDone).
            { apply (pi_r0 _ _ Hpinv). rewrite Erd. reflexivity. }
            congruence. }
        subst r0. eexists. eapply step_src_err; eassumption.
      * eexists. eapply step_src_close; eassumption.
    + (* it hands its next item to an idle worker of stage 0 *)
      destruct Hlive as [Hne Hpos].
      assert (H0 : 0 < length (st_stages s)).
      { rewrite Hlen. destruct (p_stages p); [congruence | cbn [length]; lia]. }
      destruct (nth_ex _ (st_stages s) 0 H0) as [t0 Hn0].
      destruct (Hdesc 0 t0 Hn0) as [d0 Hd0].
      destruct (idle_dec (s_ws t0) (Hq 0 t0 Hn0)) as [(k1 & k2 & Hws0) | Hall0].
      * eexists. eapply step_src_emit; [exact Esrc | exact Epend | exact Hn0 |].
        apply pc_intro. exact Hws0.
      * exfalso.
        pose proof (all_done_has_done p s 0 d0 t0 (conj Hne Hpos) Hwf Hd0 Hn0 Hall0) as Hdone0.
        pose proof (pi_done _ _ Hpinv He 0 t0 Hn0 (Hbuf _ _ Hn0) Hdone0) as Hic.
        cbn [input_closed] in Hic. congruence.
  - (* the source has returned: the first stage that is not closed *)
    destruct (first_open (st_stages s)) as [Hall | (n & t & Hn & Hc & Hbefore)].
    + exfalso. destruct Hopen as [E | (n & t & Hn & Hc)]; [discriminate E|].
      rewrite (Hall n t Hn) in Hc. discriminate Hc.
    + assert (Hic : input_closed s n).
      { destruct n as [|m]; cbn [input_closed]; [exact Esrc|].
        destruct (nth_ex _ (st_stages s) m) as [tm Hm].
        { pose proof (nth_lt _ _ _ _ Hn). lia. }
        exists tm. split; [exact Hm|]. eapply (Hbefore m); [lia | exact Hm]. }
      destruct (idle_dec (s_ws t) (Hq n t Hn)) as [(k1 & k2 & Hws) | Hall].
      * eexists. eapply step_exit_closed; [exact Hn | exact Hic |].
        apply pc_intro. exact Hws.
      * eexists. eapply step_closer; eassumption.
Qed.

(* ------------------------------------------------------------------ *)
(* (1) main is never stuck before it returns                            *)
(* ------------------------------------------------------------------ *)

Theorem main_not_stuck : forall p s,
  live_params p -> reach p s -> st_main s = None -> exists s', step p s s'.
Proof.
  intros p s Hlive Hreach Hmain.
  pose proof (reach_inv p s Hreach) as Hinv.
  pose proof (reach_pinv p s Hreach) as Hpinv.
  pose proof (inv_len _ _ Hinv) as Hlen.
  pose proof (inv_rlen _ _ Hinv) as Hrlen.
  destruct (readers_dec (st_readers s)) as [Hnone | (r & Hr)].
  { eexists. apply step_main_return; assumption. }
  destruct (ectx_done s) eqn:He.
  { eexists. eapply step_reader_ctx; eassumption. }
  pose proof (proj1 (ectx_false s) He) as (Hec & _ & _).
  destruct (find_ebuf (st_stages s)) as [Hbuf | (n & t & i & Hn & Hb)].
  2: { (* an error waits in a buffer: its reader has not returned *)
    destruct (nth_ex _ (st_readers s) (S n)) as [rn Hrn].
    { pose proof (nth_lt _ _ _ _ Hn). lia. }
    destruct (pi_readers _ _ Hpinv Hec rn (nth_error_In _ _ Hrn)) as [-> | ->].
    - eexists. eapply step_reader_take; eassumption.
    - exfalso. destruct (pi_rS _ _ Hpinv n Hrn) as (t' & Ht' & _ & Hb').
      rewrite Hn in Ht'. injection Ht' as <-. congruence. }
  destruct (st_src s) eqn:Esrc.
  { apply open_progress; try assumption. left. exact Esrc. }
  destruct (first_open (st_stages s)) as [Hall | (n & t & Hn & Hc & _)].
  2: { apply open_progress; try assumption. right. exists n, t. split; assumption. }
  (* everything is closed: the waiting reader sees its channel closed *)
  destruct r as [|n].
  - destruct (st_readers s) as [|r0 rs] eqn:Erd; [discriminate Hr|].
    cbn [nth_error] in Hr. injection Hr as ->.
    eexists. eapply step_reader0_closed; eassumption.
  - destruct (nth_ex _ (st_stages s) n) as [t Hn].
    { pose proof (nth_lt _ _ _ _ Hr). lia. }
    eexists. eapply step_reader_closed; [exact Hn | exact (Hall n t Hn) | exact (Hbuf n t Hn) | exact Hr].
Qed.

Corollary stuck_means_returned : forall p s,
  live_params p -> reach p s -> (forall s', ~ step p s s') -> st_main s <> None.
Proof.
  intros p s Hlive Hreach Hstuck.
  destruct (st_main s) as [r|] eqn:Hm; [discriminate|].
  exfalso. destruct (main_not_stuck p s Hlive Hreach Hm) as [s' Hs].
  exact (Hstuck s' Hs).
Qed.

(* ------------------------------------------------------------------ *)
(* (2) the call returns                                                 *)
(* ------------------------------------------------------------------ *)

Lemma last_default : forall (A : Type) (l : list A) (a d d' : A),
  last (a :: l) d = last (a :: l) d'.
Proof.
  intros A l. induction l as [|b l IH]; intros a d d'.
  - reflexivity.
  - change (last (b :: l) d = last (b :: l) d'). apply IH.
Qed.

Lemma last_cons : forall (A : Type) (l : list A) (a d : A), last (a :: l) d = last l a.
Proof.
  intros A l a d. destruct l as [|b l].
  - reflexivity.
  - change (last (b :: l) d = last (b :: l) a). apply last_default.
Qed.

Lemma path_reach : forall p s l,
  PipeFinite.path p s l -> reach p s -> reach p (last l s).
Proof.
  intros p s l H. induction H as [s | s s' l Hstep Hpath IH]; intros Hreach.
  - exact Hreach.
  - rewrite last_cons. apply IH. eapply reach_step; eassumption.
Qed.

Lemma returns_bounded : forall n p s,
  live_params p -> PipeFinite.measure p s <= n -> reach p s ->
  exists l, PipeFinite.path p s l /\ st_main (last l s) <> None.
Proof.
  induction n as [|n IH]; intros p s Hlive Hle Hreach.
  - destruct (st_main s) as [r|] eqn:Hm.
    + exists []. split; [apply PipeFinite.path_nil|]. cbn [last]. rewrite Hm. discriminate.
    + exfalso. destruct (main_not_stuck p s Hlive Hreach Hm) as [s' Hs].
      pose proof (PipeFinite.step_decreases p s s' (PipeFinite.reach_wf p s Hreach) Hs). lia.
  - destruct (st_main s) as [r|] eqn:Hm.
    + exists []. split; [apply PipeFinite.path_nil|]. cbn [last]. rewrite Hm. discriminate.
    + destruct (main_not_stuck p s Hlive Hreach Hm) as [s' Hs].
      pose proof (PipeFinite.step_decreases p s s' (PipeFinite.reach_wf p s Hreach) Hs) as Hdec.
      destruct (IH p s' Hlive ltac:(lia) (reach_step p s s' Hreach Hs)) as (l & Hpath & Hret).
      exists (s' :: l). split.
      * apply PipeFinite.path_cons; assumption.
      * rewrite last_cons. exact Hret.
Qed.

(* from every reachable state some run reaches a state in which main has returned *)
Theorem call_returns : forall p s,
  live_params p -> reach p s ->
  exists l s', PipeFinite.path p s l /\ s' = last l s /\ st_main s' <> None.
Proof.
  intros p s Hlive Hreach.
  destruct (returns_bounded (PipeFinite.measure p s) p s Hlive (le_n _) Hreach) as (l & Hpath & Hret).
  exists l, (last l s). split; [exact Hpath|]. split; [reflexivity | exact Hret].
Qed.

(* every run is finite (PipeFinite.runs_are_finite) and a run that cannot be extended ends in a
   state in which main has returned: EVERY maximal run returns *)
Theorem every_maximal_run_returns : forall p s l,
  live_params p -> reach p s -> PipeFinite.path p s l ->
  (forall s', ~ step p (last l s) s') ->
  length l <= PipeFinite.measure p s /\ st_main (last l s) <> None.
Proof.
  intros p s l Hlive Hreach Hpath Hstuck. split.
  - exact (PipeFinite.runs_are_finite p s Hreach l Hpath).
  - apply (stuck_means_returned p); [exact Hlive | exact (path_reach p s l Hpath Hreach) | exact Hstuck].
Qed.

(* ------------------------------------------------------------------ *)
(* (3) a cancelled call does not return nil (D21 repair)                *)
(* ------------------------------------------------------------------ *)

Lemma return_nil_step : forall p s s',
  step p s s' -> st_main s = None -> st_main s' = Some None ->
  st_ucancel s = false /\ st_first_err s = None.
Proof.
  intros p s s' H Hm Hm'. inversion H; subst; clear H; sproj_in Hm'; try congruence.
  destruct (st_first_err s) as [e|]; [congruence|].
  destruct (st_ucancel s); [congruence|]. split; reflexivity.
Qed.

Theorem returned_nil_not_cancelled : forall p s s',
  reach p s -> step p s s' -> st_main s = None -> st_main s' = Some None ->
  st_ucancel s = false.
Proof.
  intros p s s' _ H Hm Hm'. exact (proj1 (return_nil_step p s s' H Hm Hm')).
Qed.

(* ... and conversely a return while the caller's context is cancelled reports an error *)
Corollary cancelled_return_is_error : forall p s s' r,
  step p s s' -> st_main s = None -> st_main s' = Some r -> st_ucancel s = true ->
  r <> None.
Proof.
  intros p s s' r H Hm Hm' Hu E. subst r.
  destruct (return_nil_step p s s' H Hm Hm') as [Hu' _]. congruence.
Qed.

(* ------------------------------------------------------------------ *)
(* the hypothesis `live_params` is needed, even for safe parameters     *)
(* ------------------------------------------------------------------ *)

Lemma pc_nil : forall ws' x y, ~ pool_change [] ws' x y.
Proof.
  intros ws' x y (l1 & l2 & E & _). destruct l1; discriminate E.
Qed.

Lemma nth_single : forall (A : Type) (a x : A) n, nth_error [a] n = Some x -> n = 0 /\ x = a.
Proof.
  intros A a x [|[|n]] H; cbn [nth_error] in H; try discriminate H.
  injection H as <-. split; reflexivity.
Qed.

Lemma nth_nil : forall (A : Type) (x : A) n, nth_error [] n = Some x -> False.
Proof. intros A x [|n] H; discriminate H. Qed.

(* no stage at all: the source's first hand-over has no receiver *)
Definition p_no_stage : params :=
  {| p_items := [0]; p_src_err := false; p_src_err_guarded := true; p_src_emit_guarded := true;
     p_stages := []; p_user_may_cancel := false |}.

Lemma p_no_stage_safe : safe_params p_no_stage.
Proof. repeat split; destruct H. Qed.

Example stuck_without_stage :
  reach p_no_stage (init p_no_stage) /\ st_main (init p_no_stage) = None /\
  forall s', ~ step p_no_stage (init p_no_stage) s'.
Proof.
  split; [apply reach_init|]. split; [reflexivity|].
  intros s' H. inversion H; subst; clear H; cbn in *;
    try discriminate;
    try (eapply nth_nil; eassumption).
  match goal with Hr : forall r, _ -> r <> RWait |- _ =>
    exact (Hr RWait (or_introl eq_refl) eq_refl) end.
Qed.

(* a stage without worker: its closer closes it, its reader returns, and the source's first
   hand-over has no receiver *)
Definition d_no_worker : sdesc :=
  {| d_workers := 0; d_fails := fun _ => false; d_err_send := CtxGuarded;
     d_exits_on_err := true; d_out_guarded := true; d_in_guarded := true;
     d_lock := false; d_lines := fun _ => 0 |}.

Definition p_no_worker : params :=
  {| p_items := [0]; p_src_err := false; p_src_err_guarded := true; p_src_emit_guarded := true;
     p_stages := [d_no_worker]; p_user_may_cancel := false |}.

Definition t_no_worker : sst := Build_sst [] true None.

Definition s_no_worker : state :=
  {| st_pending := [0]; st_src := SRun; st_src_err_pending := false;
     st_stages := [t_no_worker];
     st_readers := [RWait; RDone None];
     st_main := None; st_first_err := None;
     st_ucancel := false; st_icancel := false; st_ecancel := false; st_log := [] |}.

Lemma p_no_worker_safe : safe_params p_no_worker.
Proof.
  split; [reflexivity|]. split; [reflexivity|].
  intros d [<- | []]. repeat split.
Qed.

Lemma s_no_worker_reach : reach p_no_worker s_no_worker.
Proof.
  assert (H1 : reach p_no_worker
                 (with_stages (init p_no_worker)
                    (upd 0 set_closed (st_stages (init p_no_worker))))).
  { eapply reach_step; [apply reach_init|].
    eapply step_closer with (n := 0) (t := init_stage d_no_worker).
    - reflexivity.
    - reflexivity.
    - intros w []. }
  eapply reach_step; [exact H1|].
  eapply step_reader_closed with (n := 0) (t := set_closed (init_stage d_no_worker));
    reflexivity.
Qed.

Example stuck_without_worker :
  reach p_no_worker s_no_worker /\ st_main s_no_worker = None /\
  forall s', ~ step p_no_worker s_no_worker s'.
Proof.
  split; [apply s_no_worker_reach|]. split; [reflexivity|].
  intros s' H. inversion H; subst; clear H; cbn in *;
    try discriminate;
    repeat match goal with
    | Hn : nth_error [_] _ = Some _ |- _ => apply nth_single in Hn; destruct Hn; subst; cbn in *
    | Hn : nth_error [] _ = Some _ |- _ => exfalso; exact (nth_nil _ _ _ Hn)
    | Hpc : pool_change [] _ _ _ |- _ => exfalso; exact (pc_nil _ _ _ Hpc)
    end;
    try discriminate.
  - match goal with Ht : Some _ = Some _ |- _ => injection Ht as <- end.
    cbn in *. eapply pc_nil; eassumption.
  - match goal with Hr : forall r, _ -> r <> RWait |- _ =>
      exact (Hr RWait (or_introl eq_refl) eq_refl) end.
Qed.

Print Assumptions reach_pinv.
Print Assumptions main_not_stuck.
Print Assumptions stuck_means_returned.
Print Assumptions call_returns.
Print Assumptions every_maximal_run_returns.
Print Assumptions returned_nil_not_cancelled.
Print Assumptions stuck_without_stage.
Print Assumptions stuck_without_worker.
