(* Proofs/Extras.v — further corollaries: transient writer failures (C14), no Panic for the
   file-system entry points (C12), the walk of a spelled document (C05). *)
From Coq Require Import List Ascii Arith Bool Lia.
From GT Require Import Base.GoStr Md.Parser Tree.Tree Tree.Gen Tree.Grower Out.Spreader Out.Formatted Out.Walker
  Api.Simple Fs.FsModel Fs.Mkdir Fs.Verify Api.Programmable Api.Faults Spec.Spec Spec.Spelling
  Proofs.TreeInd Proofs.GenItems Proofs.OutputText Proofs.NoPanic Proofs.Paths Proofs.Walk Proofs.SpelledTop Proofs.Faults.
Import ListNotations.

(* ---------- C14: a writer that rejects exactly its k-th call ---------- *)
Fixpoint nonempty_writes (cs : list chunk) : nat :=
  match cs with
  | [] => 0
  | CText [] :: r => nonempty_writes r
  | CText _ :: r => S (nonempty_writes r)
  | CEnc _ _ :: r => S (nonempty_writes r)
  end.

Lemma write_kth_ok : forall cs k acc,
  write_kth k cs = (acc, true) -> acc = chunk_bytes cs /\ nonempty_writes cs <= k.
Proof.
  induction cs as [|[s|e f] r IH]; intros k acc H; cbn [write_kth] in H.
  - inversion H. cbn. split; [reflexivity|lia].
  - destruct s as [|c s'].
    + destruct (IH _ _ H) as [H1 H2]. cbn [chunk_bytes nonempty_writes app]. auto.
    + destruct k as [|k']; [inversion H|].
      destruct (write_kth k' r) as [a ok] eqn:W. inversion H; subst.
      destruct (IH _ _ W) as [H1 H2]. cbn [chunk_bytes nonempty_writes]. split; [rewrite H1; reflexivity|lia].
  - inversion H.
Qed.

(* nil is returned only if the rejected call was never made: every write the call issued succeeded *)
Theorem transient_failure_reported c input k acc :
  output_faulty_kth c input k = (acc, Ok tt) ->
  acc = chunk_bytes (fst (output_md c input)) /\ nonempty_writes (fst (output_md c input)) <= k.
Proof.
  unfold output_faulty_kth. destruct (output_md c input) as [cs r]. destruct (write_kth k cs) as [a ok] eqn:W.
  intros H. destruct ok; [|inversion H]. inversion H; subst. cbn [fst]. apply write_kth_ok. exact W.
Qed.

Theorem transient_failure_reported_root c t k acc :
  output_root_faulty_kth c t k = (acc, Ok tt) ->
  acc = chunk_bytes (fst (output_root c t)) /\ nonempty_writes (fst (output_root c t)) <= k.
Proof.
  unfold output_root_faulty_kth. destruct (output_root c t) as [cs r]. destruct (write_kth k cs) as [a ok] eqn:W.
  intros H. destruct ok; [|inversion H]. inversion H; subst. cbn [fst]. apply write_kth_ok. exact W.
Qed.

(* ---------- C12: mkdir / verify from Markdown never panic ---------- *)
Definition out_panics (o : pout) : bool :=
  match o with
  | OOutput _ Panic | OWalk _ Panic | OFs _ Panic _ => true
  | _ => false
  end.

Lemma mkdir_trees_no_panic c dir f ts : snd (mkdir_trees c dir f ts) <> Panic.
Proof.
  unfold mkdir_trees. cbn zeta. pose proof (grow_all_no_panic (no_enc c) true ts) as Hg.
  destruct (grow_all (no_enc c) true ts) as [gs|e|]; cbn [snd]; try discriminate; [|contradiction].
  destruct (c_dry (no_enc c)).
  - destruct (spread_all_ok (no_enc c) gs) as [cs Hc]. rewrite Hc. discriminate.
  - destruct (mkdirer (c_exts (no_enc c)) dir f gs) as [f1 r] eqn:M. cbn [snd].
    unfold mkdirer in M. destruct (exists_root f (target_of dir) gs); [inversion M; subst; discriminate|].
    destruct (make_roots (c_exts (no_enc c)) (target_of dir) f gs) as [f2 ok]. inversion M; subst. destruct ok; discriminate.
Qed.

Lemma verifier_no_panic strict target f : forall gs, verifier strict target f gs <> Panic.
Proof.
  induction gs as [|g r IH]; cbn; [discriminate|].
  destruct (verify_root strict target f g); [exact IH|discriminate|discriminate].
Qed.

Lemma verify_trees_no_panic c strict dir f ts : verify_trees c strict dir f ts <> Panic.
Proof.
  unfold verify_trees. cbn zeta. pose proof (grow_all_no_panic (no_enc c) true ts) as Hg.
  destruct (grow_all (no_enc c) true ts) as [gs|e|]; try discriminate; [|contradiction]. apply verifier_no_panic.
Qed.

Theorem md_fs_ops_no_panic w c strict dir doc :
  out_panics (snd (pstep w (PMdMkdir c dir doc))) = false /\
  out_panics (snd (pstep w (PMdVerify c strict dir doc))) = false.
Proof.
  pose proof (gen_all_r_no_panic doc None) as Hg.
  split; cbn [pstep]; unfold gen_all; destruct (gen_all_r doc None) as [ts|e|]; try reflexivity; try (exfalso; apply Hg; reflexivity).
  - pose proof (mkdir_trees_no_panic c dir (w_fs w) ts) as Hm.
    destruct (mkdir_trees c dir (w_fs w) ts) as [[f' cs] r]. cbn [snd] in *. destruct r; try reflexivity. exfalso; apply Hm; reflexivity.
  - pose proof (verify_trees_no_panic c strict dir (w_fs w) ts) as Hv. cbn [snd out_panics].
    destruct (verify_trees c strict dir (w_fs w) ts); try reflexivity. exfalso; apply Hv; reflexivity.
Qed.

(* ---------- C05: walking any spelling of a forest ---------- *)
Definition walk_cfg (bf : bfmt) : cfg :=
  {| c_bf := bf; c_enc := EncDefault; c_dry := false; c_exts := []; c_noiter := false |}.

Lemma all_names_ok_forall ts : (forall t, In t ts -> names_ok t) -> all_names_ok ts.
Proof. induction ts as [|t r IH]; intros H; cbn; [exact I|]. split; [apply H; left; reflexivity|apply IH; intros x Hx; apply H; right; exact Hx]. Qed.

Lemma grow_all_walk_cfg bf ts : grow_all (no_enc (walk_cfg bf)) false ts = Ok (map (grow_root bf) ts).
Proof.
  induction ts as [|t r IH]; [reflexivity|].
  cbn [grow_all map]. unfold grow_one at 1. cbn [no_enc walk_cfg c_enc c_dry c_bf is_default orb].
  rewrite IH. reflexivity.
Qed.

Theorem walk_spelled bf cb sp f :
  spells sp f -> all_names_ok (map trie_of f) ->
  walk_md (walk_cfg bf) cb (bytes_of sp) =
  match first_fail cb 0 (List.length (spec_visits bf (map trie_of f))) with
  | Some k => (firstn (S k) (spec_visits bf (map trie_of f)), Err (ECallback k))
  | None => (spec_visits bf (map trie_of f), Ok tt)
  end.
Proof.
  intros Hs Hn. destruct (spells_parses sp f Hs) as [Hscan [st' Hp]].
  destruct (gen_run_forest _ _ _ _ Hscan Hp) as [Ha _].
  unfold walk_md. cbn zeta. rewrite Ha.
  rewrite grow_all_walk_cfg, walk_prefix, (visits_forest bf _ Hn). reflexivity.
Qed.
