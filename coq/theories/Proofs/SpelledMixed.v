(* Proofs/SpelledMixed.v — the MIXED notation family: the first roots written as bullets
   (their descendants indented d-1 units), and from some later root on every root written
   as a "#" heading (descendants of those roots indented d-2 units).  The switch happens at
   most once and only at a root.  Every such spelling is read back by the parser as exactly
   the items; the property theorems of Proofs/SpelledTop.v are extended to this family.
   Nothing in the existing files is modified. *)
From Coq Require Import List Ascii Arith Bool NArith Lia.
From GT Require Import Base.GoStr Md.Parser Tree.Tree Tree.Gen Tree.Grower Api.Simple Fs.FsModel Api.Programmable
  Spec.Spec Spec.Classify Spec.Spelling
  Proofs.GenItems Proofs.Spelled Proofs.OutputText Proofs.Programmable Proofs.SpelledTop.
Import ListNotations.

(* ---------- the mixed family at the level of items and rows ---------- *)

(* the listing starts with a root (or is empty) *)
Definition head_root (its : list (nat * str)) : Prop :=
  match its with (d, _) :: _ => d = 1 | [] => True end.

(* rows1 spells its1 with bullet roots, rows2 spells its2 with heading roots, same unit *)
Definition rows_mixed (u : unit_t) (its1 its2 : list (nat * str)) (rows : list str) : Prop :=
  exists rows1 rows2, rows = rows1 ++ rows2 /\ rows_of u false its1 rows1 /\ rows_of u true its2 rows2.

(* side conditions.  [head_root its1] is not listed: it follows from [nested] (mixed_ok_head1) *)
Definition mixed_ok (its1 its2 : list (nat * str)) : Prop :=
  Forall (item_ok false) its1 /\ Forall (item_ok true) its2 /\
  nested (its1 ++ its2) /\ head_root its2.

(* ---------- parses is compositional over ++ ---------- *)

Lemma parses_app st rows1 its1 st1 :
  parses st rows1 its1 st1 ->
  forall rows2 its2 st2, parses st1 rows2 its2 st2 ->
  parses st (rows1 ++ rows2) (its1 ++ its2) st2.
Proof.
  induction 1 as [st|st row rows its st' Hp Hr IH|st row rows d n its st1 st' Hp Hd Hr IH];
    intros rows2 its2 st2 H2; cbn [app].
  - exact H2.
  - apply parses_blank; [exact Hp|]. apply IH. exact H2.
  - eapply parses_item; [exact Hp|exact Hd|]. apply IH. exact H2.
Qed.

(* ---------- nested listings split ---------- *)

Lemma nested_from_app_l : forall a b prev, nested_from prev (a ++ b) -> nested_from prev a.
Proof.
  induction a as [|[d n] a IH]; intros b prev H; [exact I|].
  cbn [app nested_from] in H |- *. destruct H as [H1 [H2 H3]].
  repeat split; [exact H1|exact H2|]. exact (IH b d H3).
Qed.

Lemma nested_from_app_r : forall a b prev,
  nested_from prev (a ++ b) -> head_root b -> forall prev', nested_from prev' b.
Proof.
  induction a as [|[d n] a IH]; intros b prev H Hb prev'.
  - cbn [app] in H. destruct b as [|[d n] r]; [exact I|].
    cbn [head_root] in Hb. subst d. cbn [nested_from] in H |- *.
    destruct H as [_ [_ H3]]. repeat split; [lia|lia|exact H3].
  - cbn [app nested_from] in H. destruct H as [_ [_ H3]]. exact (IH b d H3 Hb prev').
Qed.

Lemma nested_head its : nested its -> head_root its.
Proof.
  destruct its as [|[d n] r]; [intros _; exact I|].
  unfold nested. cbn [nested_from head_root]. intros [H1 [H2 _]]. lia.
Qed.

(* the side condition "its1 starts with a root" is implied *)
Lemma mixed_ok_head1 its1 its2 : mixed_ok its1 its2 -> head_root its1.
Proof.
  intros [_ [_ [Hn _]]]. apply nested_head. unfold nested in *. exact (nested_from_app_l _ _ _ Hn).
Qed.

(* depth of the last item (or [prev] if there is none) *)
Fixpoint last_depth (prev : nat) (its : list (nat * str)) : nat :=
  match its with [] => prev | (d, _) :: r => last_depth d r end.

Lemma nested_from_app_last : forall a b prev,
  nested_from prev (a ++ b) -> nested_from (last_depth prev a) b.
Proof.
  induction a as [|[d n] a IH]; intros b prev H; [exact H|].
  cbn [app nested_from] in H. destruct H as [_ [_ H3]]. cbn [last_depth]. exact (IH b d H3).
Qed.

(* ---------- spelled_gen with the final parser state described ----------
   Same induction as Proofs/Spelled.spelled_gen; in addition the state reached satisfies
   the invariant (unit learnt or not, separator set or not — always those of [u]) and, in
   a bullet-only section, the sticky [sharp] flag is still off; and if no unit has been
   learnt yet, the last item is not deeper than the rows a unit-less state can read. *)

Lemma spelled_gen_inv u heading : forall its rows,
  rows_of u heading its rows ->
  forall st prev,
    Forall (item_ok heading) its -> nested_from prev its -> inv u st ->
    (spaces st = 0 -> prev <= 1 + hdn heading) ->
    (heading = false -> sharp st = false) ->
    (heading = true -> sharp st = true \/ head_root its) ->
    exists st', parses st rows its st' /\ inv u st' /\ (heading = false -> sharp st' = false) /\
                (spaces st' = 0 -> last_depth prev its <= 1 + hdn heading).
Proof.
  induction 1 as [|its bl rows Hbl Hrows IH|it its r rows Hrow Hrows IH];
    intros st prev Hok Hnest Hinv Hsp Hnh Hh.
  - exists st. split; [constructor|]. split; [exact Hinv|]. split; [exact Hnh|exact Hsp].
  - destruct (IH st prev Hok Hnest Hinv Hsp Hnh Hh) as [st' [H HI]]. exists st'.
    split; [|exact HI].
    apply parses_blank; [|exact H]. unfold parse. rewrite Hbl. reflexivity.
  - inversion Hok as [|? ? Hit Hok']; subst.
    inversion Hrow as [d n bl Hb Hd Hd2|n k a z Hhd]; subst.
    + cbn [nested_from] in Hnest. destruct Hnest as [_ [Hdp Hnest]].
      destruct Hit as [Hn _]. cbn [snd] in Hn.
      set (levels := d - (if heading then 2 else 1)) in *.
      assert (Hlv : spaces st = 0 -> levels <= 1).
      { intros E. specialize (Hsp E). unfold levels, hdn in *. destruct heading; lia. }
      destruct (parse_item u st levels bl n Hinv Hb Hn Hlv) as [st1 [P1 [I1 [S1 L1]]]].
      assert (Hdepth : levels + 1 + (if sharp st then 1 else 0) = d).
      { unfold levels. destruct heading.
        - specialize (Hd2 eq_refl). destruct (Hh eq_refl) as [E|E]; [rewrite E; lia|].
          cbn [head_root] in E. lia.
        - rewrite (Hnh eq_refl). lia. }
      rewrite Hdepth in P1.
      destruct (IH st1 d Hok' Hnest I1) as [st' [H HI]].
      * intros E. specialize (L1 E). unfold levels, hdn in *. destruct heading; lia.
      * intros E. rewrite S1. auto.
      * intros E. left. rewrite S1. destruct (Hh E) as [F|F]; [exact F|].
        specialize (Hd2 E). cbn [head_root] in F. lia.
      * exists st'. split; [|exact HI]. eapply parses_item; eauto.
    + cbn [nested_from] in Hnest. destruct Hnest as [_ [_ Hnest]].
      destruct Hit as [Hn Hit]. cbn [fst snd] in Hn, Hit.
      destruct (Hit eq_refl eq_refl) as [F1 [F2 F3]].
      pose proof (parse_heading st k a z n Hn F1 F2 F3) as P1.
      destruct (IH {| sharp := true; spaces := spaces st; sep := sep st |} 1 Hok' Hnest) as [st' [H HI]].
      * exact Hinv.
      * intros _. cbn [hdn]. lia.
      * intros E. discriminate.
      * intros _. left. reflexivity.
      * exists st'. split; [|exact HI]. eapply parses_item; eauto.
Qed.

(* ---------- (1) a mixed document parses to its items ---------- *)

(* from any state reachable at the end of a bullet section (in fact: any state satisfying
   the invariant for the same unit), a heading section that starts with a heading parses *)
Lemma heading_section_parses u st its2 rows2 :
  inv u st -> Forall (item_ok true) its2 -> (forall prev, nested_from prev its2) -> head_root its2 ->
  rows_of u true its2 rows2 -> exists st', parses st rows2 its2 st'.
Proof.
  intros Hinv Hok Hn Hh Hrows.
  apply (spelled_gen u true its2 rows2 Hrows st 0 Hok (Hn 0) Hinv).
  - intros _. cbn [hdn]. lia.
  - intros E. discriminate.
  - intros _. right. exact Hh.
Qed.

Theorem mixed_parses : forall u its1 its2 rows,
  mixed_ok its1 its2 -> rows_mixed u its1 its2 rows ->
  exists st', parses p0 rows (its1 ++ its2) st'.
Proof.
  intros u its1 its2 rows [Hok1 [Hok2 [Hn Hh]]] [rows1 [rows2 [E [R1 R2]]]]. subst rows.
  unfold nested in Hn.
  destruct (spelled_gen_inv u false its1 rows1 R1 p0 0 Hok1 (nested_from_app_l _ _ _ Hn))
    as [st1 [P1 [I1 [_ _]]]].
  - unfold inv, p0. cbn [sep spaces]. auto.
  - intros _. lia.
  - intros _. reflexivity.
  - intros E. discriminate.
  - destruct (heading_section_parses u st1 its2 rows2 I1 Hok2 (nested_from_app_r _ _ _ Hn Hh) Hh R2)
      as [st2 P2].
    exists st2. exact (parses_app _ _ _ _ P1 _ _ _ P2).
Qed.

(* ---------- the side condition [head_root its2] is also necessary ---------- *)

(* parse is a function, so a parse of rows1 ++ rows2 whose first part is known splits *)
Lemma parses_app_inv st rows1 its1 st1 :
  parses st rows1 its1 st1 ->
  forall rows2 its2 st2, parses st (rows1 ++ rows2) (its1 ++ its2) st2 ->
  parses st1 rows2 its2 st2.
Proof.
  induction 1 as [st|st row rows its st' Hp Hr IH|st row rows d n its st1 st' Hp Hd Hr IH];
    intros rows2 its2 st2 H2; cbn [app] in H2.
  - exact H2.
  - inversion H2 as [|? ? ? ? ? Hq Hr2|? ? ? ? ? ? ? ? Hq Hd2 Hr2]; subst.
    + apply IH. exact Hr2.
    + rewrite Hp in Hq. discriminate.
  - inversion H2 as [|? ? ? ? ? Hq Hr2|? ? ? ? ? ? ? ? Hq Hd2 Hr2]; subst.
    + rewrite Hp in Hq. discriminate.
    + rewrite Hp in Hq. inversion Hq; subst. apply IH. exact Hr2.
Qed.

(* a heading-style section read from a state whose sharp flag is off: if it parses to its
   items at all, it starts with a heading *)
Lemma heading_section_head u : forall its2 rows2,
  rows_of u true its2 rows2 ->
  forall st st' prev,
    inv u st -> sharp st = false -> Forall (item_ok true) its2 -> nested_from prev its2 ->
    (spaces st = 0 -> prev <= 1) ->
    parses st rows2 its2 st' -> head_root its2.
Proof.
  induction 1 as [|its bl rows Hbl Hrows IH|it its r rows Hrow Hrows IH];
    intros st st' prev Hinv Hs Hok Hnest Hsp Hp.
  - exact I.
  - assert (Hb : parse st bl = (st, PBlank)) by (unfold parse; rewrite Hbl; reflexivity).
    inversion Hp as [|? ? ? ? ? Hq Hr2|? ? ? ? ? ? ? ? Hq Hd2 Hr2]; subst.
    + exact (IH st st' prev Hinv Hs Hok Hnest Hsp Hr2).
    + rewrite Hb in Hq. discriminate.
  - inversion Hrow as [d n bl Hb Hd Hd2|n k a z Hhd]; subst; [|reflexivity].
    exfalso. specialize (Hd2 eq_refl).
    inversion Hok as [|? ? Hit Hok']; subst. destruct Hit as [Hn _]. cbn [snd] in Hn.
    cbn [nested_from] in Hnest. destruct Hnest as [_ [Hdp _]].
    assert (Hlv : spaces st = 0 -> d - 2 <= 1) by (intros E; specialize (Hsp E); lia).
    destruct (parse_item u st (d - 2) bl n Hinv Hb Hn Hlv) as [st1 [P1 _]].
    rewrite Hs in P1.
    inversion Hp as [|? ? ? ? ? Hq Hr2|? ? ? ? ? ? ? ? Hq Hd3 Hr2]; subst.
    + rewrite P1 in Hq. discriminate.
    + rewrite P1 in Hq. inversion Hq; subst. lia.
Qed.

(* the strongest form: under the other side conditions a mixed document parses to its
   items IF AND ONLY IF the heading part starts with a root *)
Theorem mixed_parses_iff : forall u its1 its2 rows,
  Forall (item_ok false) its1 -> Forall (item_ok true) its2 -> nested (its1 ++ its2) ->
  rows_mixed u its1 its2 rows ->
  ((exists st', parses p0 rows (its1 ++ its2) st') <-> head_root its2).
Proof.
  intros u its1 its2 rows Hok1 Hok2 Hn Hrows. split.
  - intros [st' Hp]. destruct Hrows as [rows1 [rows2 [E [R1 R2]]]]. subst rows.
    unfold nested in Hn.
    destruct (spelled_gen_inv u false its1 rows1 R1 p0 0 Hok1 (nested_from_app_l _ _ _ Hn))
      as [st1 [P1 [I1 [S1 L1]]]].
    + unfold inv, p0. cbn [sep spaces]. auto.
    + intros _. lia.
    + intros _. reflexivity.
    + intros E. discriminate.
    + apply (heading_section_head u its2 rows2 R2 st1 st' (last_depth 0 its1) I1 (S1 eq_refl) Hok2).
      * exact (nested_from_app_last _ _ _ Hn).
      * intros E. specialize (L1 E). cbn [hdn] in L1. lia.
      * exact (parses_app_inv _ _ _ _ P1 _ _ _ Hp).
  - intros Hh. apply (mixed_parses u its1 its2 rows); [|exact Hrows].
    split; [exact Hok1|]. split; [exact Hok2|]. split; [exact Hn|exact Hh].
Qed.

(* heading roots first and bullet roots later is NOT a spelling of the same forest: after
   "# h" the column-0 bullet "- r" is read as a child of h *)
Example heading_then_bullet_is_child :
  (exists st', parses p0 [[c_sharp; c_sp; ch 104]; [c_hy; c_sp; ch 114]] [(1, [ch 104]); (2, [ch 114])] st') /\
  ~ (exists st', parses p0 [[c_sharp; c_sp; ch 104]; [c_hy; c_sp; ch 114]] [(1, [ch 104]); (1, [ch 114])] st').
Proof.
  split.
  - eexists. eapply parses_item; [vm_compute; reflexivity|lia|].
    eapply parses_item; [vm_compute; reflexivity|lia|]. apply parses_nil.
  - intros [st' H].
    inversion H as [|? ? ? ? ? Hp Hr|? ? ? ? ? ? st1 ? Hp Hd Hr]; subst.
    + vm_compute in Hp. discriminate.
    + vm_compute in Hp. inversion Hp; subst. clear Hp.
      inversion Hr as [|? ? ? ? ? Hp2 Hr2|? ? ? ? ? ? ? ? Hp2 Hd2 Hr2]; subst.
      * vm_compute in Hp2. discriminate.
      * vm_compute in Hp2. discriminate.
Qed.

(* the uniform families are the two degenerate cases *)
Lemma rows_mixed_bullet u its rows : rows_of u false its rows -> rows_mixed u its [] rows.
Proof. intros H. exists rows, []. rewrite app_nil_r. repeat split; [exact H|constructor]. Qed.

Lemma rows_mixed_heading u its rows : rows_of u true its rows -> rows_mixed u [] its rows.
Proof. intros H. exists [], rows. repeat split; [constructor|exact H]. Qed.

(* ---------- the side condition [head_root its2] cannot be dropped ----------
   "- r" / "- a" is, formally, a bullet section for [(1,r)] followed by a heading-style
   section for [(2,a)] (indented 2-2 = 0 units); all other side conditions hold; but no
   heading has set the sharp flag, so the parser reads (1,a), not (2,a). *)
Definition bad_its1 : list (nat * str) := [(1, [ch 114])].
Definition bad_its2 : list (nat * str) := [(2, [ch 97])].
Definition bad_rows : list str := [[c_hy; c_sp; ch 114]; [c_hy; c_sp; ch 97]].

Example head_root_needed :
  Forall (item_ok false) bad_its1 /\ Forall (item_ok true) bad_its2 /\
  nested (bad_its1 ++ bad_its2) /\ rows_mixed (USp 1) bad_its1 bad_its2 bad_rows /\
  ~ exists st', parses p0 bad_rows (bad_its1 ++ bad_its2) st'.
Proof.
  split; [|split; [|split; [|split]]].
  - repeat constructor; cbn; try discriminate.
  - repeat constructor; cbn; try discriminate; intros; discriminate.
  - unfold nested. cbn. lia.
  - exists [[c_hy; c_sp; ch 114]], [[c_hy; c_sp; ch 97]]. split; [reflexivity|]. split.
    + apply rows_item; [|apply rows_nil].
      refine (row_item (USp 1) false 1 [ch 114] c_hy eq_refl _ _); [lia|intros; discriminate].
    + apply rows_item; [|apply rows_nil].
      refine (row_item (USp 1) true 2 [ch 97] c_hy eq_refl _ _); [lia|intros; lia].
  - intros [st' H]. unfold bad_rows, bad_its1, bad_its2 in H. cbn [app] in H.
    inversion H as [|? ? ? ? ? Hp Hr|? ? ? ? ? ? st1 ? Hp Hd Hr]; subst.
    + vm_compute in Hp. discriminate.
    + vm_compute in Hp. inversion Hp; subst. clear Hp.
      inversion Hr as [|? ? ? ? ? Hp2 Hr2|? ? ? ? ? ? ? ? Hp2 Hd2 Hr2]; subst.
      * vm_compute in Hp2. discriminate.
      * vm_compute in Hp2. discriminate.
Qed.

(* ---------- (2) mixed spellings down to the bytes ---------- *)

(* unit; rows of the bullet part and of the heading part, each with its CRLF flag (blank
   rows anywhere); final newline or not *)
Record mixed_spelling := {
  ms_unit : unit_t;
  ms_rows1 : list (str * bool);
  ms_rows2 : list (str * bool);
  ms_final_newline : bool
}.

Definition ms_rows (ms : mixed_spelling) : list (str * bool) := ms_rows1 ms ++ ms_rows2 ms.

(* f1: the forest of the bullet roots; f2: the forest of the heading roots *)
Definition mspells (ms : mixed_spelling) (f1 f2 : list tree) : Prop :=
  Forall (item_ok false) (forest_items f1) /\
  Forall (item_ok true) (forest_items f2) /\
  rows_of (ms_unit ms) false (forest_items f1) (map fst (ms_rows1 ms)) /\
  rows_of (ms_unit ms) true (forest_items f2) (map fst (ms_rows2 ms)) /\
  Forall (fun rc => row_bytes_ok (fst rc)) (ms_rows ms) /\
  (ms_final_newline ms = false -> match rev (ms_rows ms) with (r, _) :: _ => r <> [] | [] => True end).

Definition mbytes_of (ms : mixed_spelling) : str := unscan (ms_rows ms) (ms_final_newline ms).

Lemma forest_items_app f1 f2 : forest_items (f1 ++ f2) = forest_items f1 ++ forest_items f2.
Proof.
  unfold forest_items. induction f1 as [|t f1 IH]; cbn [app flat_map]; [reflexivity|].
  rewrite IH, app_assoc. reflexivity.
Qed.

Lemma mspells_parses ms f1 f2 : mspells ms f1 f2 ->
  scan_lines (mbytes_of ms) = (map fst (ms_rows ms), ScanEOF) /\
  exists st', parses p0 (map fst (ms_rows ms)) (forest_items (f1 ++ f2)) st'.
Proof.
  intros [Hi1 [Hi2 [Hr1 [Hr2 [Hb Hf]]]]]. split.
  - apply scan_unscan; assumption.
  - rewrite forest_items_app. apply (mixed_parses (ms_unit ms)).
    + split; [exact Hi1|]. split; [exact Hi2|]. split.
      * rewrite <- forest_items_app. apply forest_items_nested.
      * exact (forest_items_head f2).
    + exists (map fst (ms_rows1 ms)), (map fst (ms_rows2 ms)).
      unfold ms_rows. rewrite map_app. auto.
Qed.

(* a uniform spelling is a mixed spelling with one empty part *)
Definition mixed_of (sp : spelling) : mixed_spelling :=
  {| ms_unit := sp_unit sp;
     ms_rows1 := if sp_heading sp then [] else sp_rows sp;
     ms_rows2 := if sp_heading sp then sp_rows sp else [];
     ms_final_newline := sp_final_newline sp |}.

Lemma mixed_of_bytes sp : mbytes_of (mixed_of sp) = bytes_of sp.
Proof.
  unfold mbytes_of, bytes_of, ms_rows, mixed_of. cbn [ms_rows1 ms_rows2 ms_final_newline].
  destruct (sp_heading sp); [reflexivity|rewrite app_nil_r; reflexivity].
Qed.

Lemma mixed_of_spells sp f : spells sp f ->
  mspells (mixed_of sp) (if sp_heading sp then [] else f) (if sp_heading sp then f else []).
Proof.
  intros [Hi [Hr [Hb Hf]]]. unfold mspells, ms_rows, mixed_of.
  cbn [ms_unit ms_rows1 ms_rows2 ms_final_newline].
  destruct (sp_heading sp); cbn [map app forest_items flat_map]; rewrite ?app_nil_r;
    repeat split; try assumption; constructor.
Qed.

(* ---------- (3) the property theorems for the mixed family ---------- *)

(* C01 for mixed spellings: both routes, every branch format *)
Theorem text_rule_mixed bf ni ms f1 f2 : mspells ms f1 f2 ->
  exists ws, output_md (text_cfg bf ni) (mbytes_of ms) = (ws, Ok tt) /\
             chunks_text ws = Some (render bf (map trie_of (f1 ++ f2))).
Proof.
  intros H. destruct (mspells_parses ms f1 f2 H) as [Hs [st' Hp]].
  eapply output_text_forest; eauto.
Qed.

(* the four conjuncts of Proofs/SpelledTop.spelling_independent for two inputs *)
Definition same_results (b1 b2 : str) : Prop :=
  (forall c, output_md c b1 = output_md c b2) /\
  (forall c cb, walk_md c cb b1 = walk_md c cb b2) /\
  (forall w c d, pstep w (PMdMkdir c d b1) = pstep w (PMdMkdir c d b2)) /\
  (forall w c s d, pstep w (PMdVerify c s d b1) = pstep w (PMdVerify c s d b2)).

(* C15: a mixed spelling against ANY uniform spelling of the same forest *)
Theorem spelling_independent_mixed ms sp f1 f2 :
  mspells ms f1 f2 -> spells sp (f1 ++ f2) ->
  (forall c, output_md c (mbytes_of ms) = output_md c (bytes_of sp)) /\
  (forall c cb, walk_md c cb (mbytes_of ms) = walk_md c cb (bytes_of sp)) /\
  (forall w c d, pstep w (PMdMkdir c d (mbytes_of ms)) = pstep w (PMdMkdir c d (bytes_of sp))) /\
  (forall w c s d, pstep w (PMdVerify c s d (mbytes_of ms)) = pstep w (PMdVerify c s d (bytes_of sp))).
Proof.
  intros H1 H2. destruct (mspells_parses ms f1 f2 H1) as [S1 [st1 P1]].
  destruct (spells_parses sp (f1 ++ f2) H2) as [S2 [st2 P2]].
  eapply same_items_same_results; eauto.
Qed.

(* C15: two mixed spellings of the same forest, possibly switching at different roots *)
Theorem spelling_independent_mixed_mixed ms ms' f1 f2 g1 g2 :
  mspells ms f1 f2 -> mspells ms' g1 g2 -> f1 ++ f2 = g1 ++ g2 ->
  (forall c, output_md c (mbytes_of ms) = output_md c (mbytes_of ms')) /\
  (forall c cb, walk_md c cb (mbytes_of ms) = walk_md c cb (mbytes_of ms')) /\
  (forall w c d, pstep w (PMdMkdir c d (mbytes_of ms)) = pstep w (PMdMkdir c d (mbytes_of ms'))) /\
  (forall w c s d, pstep w (PMdVerify c s d (mbytes_of ms)) = pstep w (PMdVerify c s d (mbytes_of ms'))).
Proof.
  intros H1 H2 E. destruct (mspells_parses ms f1 f2 H1) as [S1 [st1 P1]].
  destruct (mspells_parses ms' g1 g2 H2) as [S2 [st2 P2]]. rewrite <- E in P2.
  eapply same_items_same_results; eauto.
Qed.

(* the same two statements through [same_results] *)
Corollary spelling_independent_mixed_all ms f1 f2 : mspells ms f1 f2 ->
  (forall sp, spells sp (f1 ++ f2) -> same_results (mbytes_of ms) (bytes_of sp)) /\
  (forall ms' g1 g2, mspells ms' g1 g2 -> f1 ++ f2 = g1 ++ g2 -> same_results (mbytes_of ms) (mbytes_of ms')).
Proof.
  intros H. split.
  - intros sp Hsp. exact (spelling_independent_mixed ms sp f1 f2 H Hsp).
  - intros ms' g1 g2 H' E. exact (spelling_independent_mixed_mixed ms ms' f1 f2 g1 g2 H H' E).
Qed.

(* C03 for mixed spellings of a single Add-built tree (one of the two parts is then empty,
   but which one, and where the blank rows sit, is free) *)
Theorem root_equals_markdown_mixed ms f1 f2 t : mspells ms f1 f2 -> f1 ++ f2 = [t] -> nodup_sib t ->
  (forall c, c_dry c = false -> output_md c (mbytes_of ms) = output_root c t) /\
  (forall c cb, c_dry c = false -> walk_md c cb (mbytes_of ms) = walk_root (c_bf c) cb t) /\
  (forall w h c d, root_of w (Some h) = Ok t -> pstep w (PMdMkdir c d (mbytes_of ms)) = pstep w (PMkdir (Some h) c d)) /\
  (forall w h c s d, root_of w (Some h) = Ok t -> pstep w (PMdVerify c s d (mbytes_of ms)) = pstep w (PVerify (Some h) c s d)).
Proof.
  intros H E Hn. destruct (mspells_parses ms f1 f2 H) as [Hs [st' Hp]]. rewrite E in Hp.
  repeat split; intros.
  - eapply output_root_is_output_md; eauto.
  - eapply walk_root_is_walk_md; eauto.
  - eapply mkdir_root_is_mkdir_md; eauto.
  - eapply verify_root_is_verify_md; eauto.
Qed.

(* ---------- (4) non-vacuity: a concrete mixed spelling ----------
     - r
       - a
     (blank)
     # h
     - b
       - a
   spells r{a}, h{b{a}}: the row text "  - a" occurs twice, at depth 2 (bullet part) and at
   depth 3 (heading part). *)
From Coq Require Import String.

Definition s (x : string) : str := list_ascii_of_string x.
Definition nl : string := String (ch 10) EmptyString.

Definition fm1 : list tree := [T (s "r") [T (s "a") []]].
Definition fm2 : list tree := [T (s "h") [T (s "b") [T (s "a") []]]].
Definition msx : mixed_spelling :=
  {| ms_unit := USp 1;
     ms_rows1 := [(s "- r", false); (s "  - a", false); ([], false)];
     ms_rows2 := [(s "# h", false); (s "- b", false); (s "  - a", false)];
     ms_final_newline := true |}.

Example mixed_spells_nonvacuous : mspells msx fm1 fm2.
Proof.
  unfold mspells. split; [|split; [|split; [|split; [|split]]]].
  - repeat constructor; cbn; try discriminate; intros; try discriminate; repeat split; discriminate.
  - repeat constructor; cbn; try discriminate; intros; try discriminate; repeat split; discriminate.
  - cbn [msx ms_rows1 ms_unit map fst forest_items flat_map preorder_d fm1 app tname].
    apply rows_item; [refine (row_item (USp 1) false 1 (s "r") c_hy eq_refl _ _); [repeat constructor|intros; discriminate]|].
    apply rows_item; [refine (row_item (USp 1) false 2 (s "a") c_hy eq_refl _ _); [repeat constructor|intros; discriminate]|].
    apply rows_blank; [reflexivity|].
    apply rows_nil.
  - cbn [msx ms_rows2 ms_unit map fst forest_items flat_map preorder_d fm2 app tname].
    apply rows_item; [exact (row_heading (USp 1) true (s "h") 0 1 0 eq_refl)|].
    apply rows_item; [refine (row_item (USp 1) true 2 (s "b") c_hy eq_refl _ _); [repeat constructor|intros; repeat constructor]|].
    apply rows_item; [refine (row_item (USp 1) true 3 (s "a") c_hy eq_refl _ _); [repeat constructor|intros; repeat constructor]|].
    apply rows_nil.
  - repeat constructor; cbn; try (intros [H|H]; try discriminate; repeat (destruct H as [H|H]; try discriminate); try contradiction); try discriminate; try reflexivity; try (intros F; exact F).
  - intros E. discriminate.
Qed.

(* its bytes are the document above, and the whole model renders the forest from them *)
Example mixed_bytes_literal :
  mbytes_of msx = s ("- r" ++ nl ++ "  - a" ++ nl ++ nl ++ "# h" ++ nl ++ "- b" ++ nl ++ "  - a" ++ nl)%string.
Proof. vm_compute. reflexivity. Qed.

Example mixed_output_nonvacuous :
  fst (scan_lines (mbytes_of msx)) <> [] /\
  chunks_text (fst (output_md (text_cfg default_bfmt false) (mbytes_of msx)))
    = Some (render default_bfmt (map trie_of (fm1 ++ fm2))) /\
  snd (output_md (text_cfg default_bfmt false) (mbytes_of msx)) = Ok tt /\
  map fst (filter (fun it => match it with (_, n) => if list_eq_dec Ascii.ascii_dec n (s "a") then true else false end)
                  (forest_items (fm1 ++ fm2))) = [2; 3].
Proof. split; [|split; [|split]]; vm_compute; congruence. Qed.

(* the general theorem instantiated on the example agrees with the computation *)
Example mixed_text_rule_instance :
  exists ws, output_md (text_cfg default_bfmt false) (mbytes_of msx) = (ws, Ok tt) /\
             chunks_text ws = Some (render default_bfmt (map trie_of (fm1 ++ fm2))).
Proof. exact (text_rule_mixed default_bfmt false msx fm1 fm2 mixed_spells_nonvacuous). Qed.

Print Assumptions parses_app.
Print Assumptions mixed_parses.
Print Assumptions head_root_needed.
Print Assumptions mixed_parses_iff.
Print Assumptions heading_then_bullet_is_child.
Print Assumptions mspells_parses.
Print Assumptions text_rule_mixed.
Print Assumptions spelling_independent_mixed.
Print Assumptions spelling_independent_mixed_mixed.
Print Assumptions spelling_independent_mixed_all.
Print Assumptions root_equals_markdown_mixed.
Print Assumptions mixed_spells_nonvacuous.
Print Assumptions mixed_output_nonvacuous.
