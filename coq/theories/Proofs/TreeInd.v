(* Proofs/TreeInd.v — induction principles for the rose trees and unfolding lemmas
   for the nested fixpoints of the model. *)
From Coq Require Import List Ascii Arith Bool Lia.
From GT Require Import Base.GoStr Tree.Tree Tree.Grower Out.Formatted.
Import ListNotations.

Lemma frev_rev {A} (l : list A) : frev l = rev l.
Proof. unfold frev. symmetry. apply rev_alt. Qed.

Section TreeInd.
  Variable P : tree -> Prop.
  Hypothesis H : forall n ks, Forall P ks -> P (T n ks).
  Fixpoint tree_ind' (t : tree) : P t :=
    match t with
    | T n ks =>
        H n ks ((fix go (l : list tree) : Forall P l :=
                   match l with
                   | [] => Forall_nil P
                   | k :: r => Forall_cons k (tree_ind' k) (go r)
                   end) ks)
    end.
End TreeInd.

Section GTreeInd.
  Variable P : gtree -> Prop.
  Hypothesis H : forall n b p ks, Forall P ks -> P (G n b p ks).
  Fixpoint gtree_ind' (t : gtree) : P t :=
    match t with
    | G n b p ks =>
        H n b p ks ((fix go (l : list gtree) : Forall P l :=
                   match l with
                   | [] => Forall_nil P
                   | k :: r => Forall_cons k (gtree_ind' k) (go r)
                   end) ks)
    end.
End GTreeInd.

Section FNodeInd.
  Variable P : fnode -> Prop.
  Hypothesis H : forall n ks, Forall P ks -> P (F n ks).
  Fixpoint fnode_ind' (t : fnode) : P t :=
    match t with
    | F n ks =>
        H n ks ((fix go (l : list fnode) : Forall P l :=
                   match l with
                   | [] => Forall_nil P
                   | k :: r => Forall_cons k (fnode_ind' k) (go r)
                   end) ks)
    end.
End FNodeInd.

(* named version of the inner loop of grow_node *)
Fixpoint grow_kids (bf : bfmt) (anc : list (str * bool)) (l : list tree) : list gtree :=
  match l with
  | [] => []
  | k :: r => grow_node bf anc (is_nil r) k :: grow_kids bf anc r
  end.

Definition node_bp (bf : bfmt) (anc : list (str * bool)) (islast : bool) (n : str) : str * str :=
  match anc with
  | [] => ([], n)
  | _ => climb bf anc (if islast then last_d bf else mid_d bf) (path_join [n])
  end.

Lemma grow_node_eq bf anc islast n ks :
  grow_node bf anc islast (T n ks) =
  G n (fst (node_bp bf anc islast n)) (snd (node_bp bf anc islast n))
    (grow_kids bf ((n, islast) :: anc) ks).
Proof.
  unfold node_bp. cbn [grow_node].
  destruct anc as [|a anc'].
  - cbn. f_equal. induction ks as [|k r IH]; cbn; [reflexivity|]. f_equal. exact IH.
  - destruct (climb bf (a :: anc') (if islast then last_d bf else mid_d bf) (path_join [n])) as [br p] eqn:E.
    cbn [fst snd]. f_equal. induction ks as [|k r IH]; cbn; [reflexivity|]. f_equal. exact IH.
Qed.
