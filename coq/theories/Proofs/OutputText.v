(* Proofs/OutputText.v — text output of treeSimple.output (both routes) on a document
   whose rows parse to the pre-order items of a forest. *)
From Coq Require Import List Ascii Arith Bool Lia.
From GT Require Import Base.GoStr Md.Parser Tree.Tree Tree.Gen Tree.Grower Out.Spreader Out.Formatted
  Api.Simple Spec.Spec Proofs.TreeInd Proofs.BuildTrie Proofs.GenItems Proofs.GrowRender.
Import ListNotations.

Lemma gen_run_forest input rows f st' :
  scan_lines input = (rows, ScanEOF) ->
  parses p0 rows (forest_items f) st' ->
  gen_all input = Ok (map trie_of f) /\ gen_stream input = (map trie_of f, Ok tt).
Proof.
  intros Hscan Hp. unfold gen_all, gen_stream, gen_all_r, gen_stream_r, gen_run_r, scan_lines_r. rewrite Hscan.
  destruct f as [|t0 f'].
  - destruct (gen_loop_items rows p0 [] st' g0 Hp eq_refl ([], None) eq_refl) as [s' [Hl [Hi _]]].
    rewrite Hl. unfold ist_of in Hi. inversion Hi as [[Hd Hc]]. cbn. rewrite Hd, Hc. cbn. auto.
  - destruct (irun_forest (t0 :: f') [] None) as [c Hrun]; [congruence|].
    destruct (gen_loop_items rows p0 _ st' g0 Hp eq_refl _ Hrun) as [s' [Hl [Hi _]]].
    rewrite Hl. unfold ist_of in Hi. inversion Hi as [[Hd Hc]]. cbn [gr_end gr_done gr_pending].
    rewrite Hd, Hc. rewrite frev_rev, app_nil_r, rev_involutive. cbn [opt_list].
    assert (E : map trie_of (removelast (t0 :: f')) ++ [trie_of (last (t0 :: f') (T [] []))] = map trie_of (t0 :: f')).
    { rewrite (app_removelast_last (T [] []) (l := t0 :: f')) at 3 by congruence.
      rewrite map_app. reflexivity. }
    cbn [removelast last] in E |- *. rewrite E. auto.
Qed.

(* the bytes of a list of chunks, when all of them are text *)
Fixpoint chunks_text (cs : list chunk) : option str :=
  match cs with
  | [] => Some []
  | CText s :: r => match chunks_text r with Some x => Some (s ++ x) | None => None end
  | CEnc _ _ :: _ => None
  end.

Lemma chunks_text_map_ctext ws : chunks_text (map CText ws) = Some (concat ws).
Proof. induction ws as [|w r IH]; cbn; [reflexivity|]. rewrite IH. reflexivity. Qed.

Lemma chunks_text_app a b x y :
  chunks_text a = Some x -> chunks_text b = Some y -> chunks_text (a ++ b) = Some (x ++ y).
Proof.
  revert x. induction a as [|[s|e f] r IH]; intros x Ha Hb; cbn in *.
  - inversion Ha; subst. exact Hb.
  - destruct (chunks_text r) as [x'|]; [|discriminate]. inversion Ha; subst.
    rewrite (IH x' eq_refl Hb). rewrite app_assoc. reflexivity.
  - discriminate.
Qed.

Definition text_cfg (bf : bfmt) (noiter : bool) : cfg :=
  {| c_bf := bf; c_enc := EncDefault; c_dry := false; c_exts := []; c_noiter := noiter |}.

Lemma output_iter_text bf ni ts :
  exists ws, output_iter_go (text_cfg bf ni) ts (Ok tt) = (ws, Ok tt) /\
             chunks_text ws = Some (concat (map (fun t => text_of (grow_root bf t)) ts)).
Proof.
  induction ts as [|t r [ws [H1 H2]]].
  - exists []. cbn. auto.
  - cbn [output_iter_go]. unfold grow_one, spread_iter_one. cbn [text_cfg c_enc c_dry c_bf is_default orb].
    rewrite H1. eexists. split; [reflexivity|].
    cbn [map concat]. apply chunks_text_app; [apply chunks_text_map_ctext|exact H2].
Qed.

Lemma grow_all_text bf ni ts : grow_all (text_cfg bf ni) false ts = Ok (map (grow_root bf) ts).
Proof.
  induction ts as [|t r IH]; [reflexivity|].
  cbn [grow_all]. unfold grow_one at 1. cbn [text_cfg c_enc c_dry c_bf is_default orb].
  rewrite IH. reflexivity.
Qed.

(* both routes of OutputFromMarkdown print the reference rendering of the forest of tries *)
Theorem output_text_forest bf ni input rows f st' :
  scan_lines input = (rows, ScanEOF) ->
  parses p0 rows (forest_items f) st' ->
  exists ws, output_md (text_cfg bf ni) input = (ws, Ok tt) /\
             chunks_text ws = Some (render bf (map trie_of f)).
Proof.
  intros Hs Hp. destruct (gen_run_forest _ _ _ _ Hs Hp) as [Ha Hst].
  unfold output_md, output_md_r. fold (gen_all input). fold (gen_stream input). destruct ni; cbn [text_cfg c_noiter].
  - change {| c_bf := bf; c_enc := EncDefault; c_dry := false; c_exts := []; c_noiter := true |} with (text_cfg bf true).
    rewrite Ha, grow_all_text. unfold spread_all. cbn [text_cfg c_dry c_enc is_default].
    eexists. split; [reflexivity|].
    rewrite chunks_text_map_ctext. rewrite <- grow_render_forest.
    unfold text_of. f_equal. clear.
    induction (map trie_of f) as [|t r IH]; [reflexivity|].
    cbn [map flat_map concat]. rewrite concat_app. f_equal. exact IH.
  - change {| c_bf := bf; c_enc := EncDefault; c_dry := false; c_exts := []; c_noiter := false |} with (text_cfg bf false).
    rewrite Hst. destruct (output_iter_text bf false (map trie_of f)) as [ws [H1 H2]].
    exists ws. split; [exact H1|]. rewrite H2. f_equal. apply grow_render_forest.
Qed.
