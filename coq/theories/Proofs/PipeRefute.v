(* Proofs/PipeRefute.v — the pipeline model (Conc/Pipeline.v) tells the repaired Go code
   from the defective one.

   Before its repair the Go code reported a worker's error with a bare `errc <- err` on a
   channel of capacity 1 from which handlePipelineErr receives at most one value.  In the
   model this is d_err_send = Blocking.  With three failing workers the third one blocks
   forever on the full buffer after the call has returned: a goroutine leak is REACHABLE
   (leak_reachable).  The very same scenario with the repaired send (a select on
   ctx.Done(), d_err_send = CtxGuarded) cannot get stuck in a non-quiescent state after the
   call returned (same_scenario_safe, a corollary of PipeNoLeak). *)
From Coq Require Import List Arith Bool Lia.
Import ListNotations.
From GT Require Import Conc.Pipeline Proofs.PipeNoLeak.

(* ------------------------------------------------------------------------- *)
(* 1. the parameter set                                                       *)
(* ------------------------------------------------------------------------- *)

Definition leaky_stage : sdesc :=
  {| d_workers := 3; d_fails := fun _ => true; d_err_send := Blocking;
     d_exits_on_err := true; d_out_guarded := true; d_in_guarded := true;
     d_lock := false; d_lines := fun _ => 0 |}.

Definition leaky : params :=
  {| p_items := [0; 1; 2]; p_src_err := false; p_src_err_guarded := true;
     p_src_emit_guarded := true; p_stages := [leaky_stage];
     p_user_may_cancel := false |}.

(* the same parameters with every error send written as a select on ctx.Done() *)
Definition guard_stage (d : sdesc) : sdesc :=
  {| d_workers := d_workers d; d_fails := d_fails d; d_err_send := CtxGuarded;
     d_exits_on_err := d_exits_on_err d; d_out_guarded := d_out_guarded d;
     d_in_guarded := d_in_guarded d; d_lock := d_lock d; d_lines := d_lines d |}.

Definition guarded (p : params) : params :=
  {| p_items := p_items p; p_src_err := p_src_err p;
     p_src_err_guarded := p_src_err_guarded p;
     p_src_emit_guarded := p_src_emit_guarded p;
     p_stages := map guard_stage (p_stages p);
     p_user_may_cancel := p_user_may_cancel p |}.

(* ------------------------------------------------------------------------- *)
(* 2. the run                                                                 *)
(* ------------------------------------------------------------------------- *)

(* states of a one-stage pipeline without source error, user cancellation or log *)
Definition mk (pend : list item) (src : src_state) (ws : list wst) (eb : option item)
              (rd : list rst) (mn : option (option errv)) (fe : option errv)
              (ic ec : bool) : state :=
  {| st_pending := pend; st_src := src; st_src_err_pending := false;
     st_stages := [ {| s_ws := ws; s_closed := false; s_ebuf := eb |} ];
     st_readers := rd; st_main := mn; st_first_err := fe;
     st_ucancel := false; st_icancel := ic; st_ecancel := ec; st_log := [] |}.

Definition e0 : errv := EStage 0 0.

Definition r00 := [RWait; RWait].
Definition r01 := [RWait; RDone (Some e0)].
Definition r11 := [RDone None; RDone (Some e0)].

Definition s0  := mk [0; 1; 2] SRun [WIdle; WIdle; WIdle]       None r00 None None false false.
Definition s1  := mk [1; 2]    SRun [WHold 0; WIdle; WIdle]     None r00 None None false false.
Definition s2  := mk [2]       SRun [WHold 0; WHold 1; WIdle]   None r00 None None false false.
Definition s3  := mk []        SRun [WHold 0; WHold 1; WHold 2] None r00 None None false false.
Definition s4  := mk []        SRun [WErr 0; WHold 1; WHold 2]  None r00 None None false false.
Definition s5  := mk []        SRun [WErr 0; WErr 1; WHold 2]   None r00 None None false false.
Definition s6  := mk []        SRun [WErr 0; WErr 1; WErr 2]    None r00 None None false false.
(* the first error goes into the buffer, its worker returns *)
Definition s7  := mk []        SRun [WDone; WErr 1; WErr 2]     (Some 0) r00 None None false false.
(* reader 1 takes it: the errgroup's context is cancelled, the buffer is free again *)
Definition s8  := mk []        SRun [WDone; WErr 1; WErr 2]     None r01 None (Some e0) false true.
(* the second error goes into the buffer: nobody will ever receive it *)
Definition s9  := mk []        SRun [WDone; WDone; WErr 2]      (Some 1) r01 None (Some e0) false true.
(* the source returns, reader 0 sees its channel closed, the call returns *)
Definition s10 := mk []        SDone [WDone; WDone; WErr 2]     (Some 1) r01 None (Some e0) false true.
Definition s11 := mk []        SDone [WDone; WDone; WErr 2]     (Some 1) r11 None (Some e0) false true.
Definition stuck :=
                  mk []        SDone [WDone; WDone; WErr 2]     (Some 1) r11 (Some (Some e0)) (Some e0) true true.

Lemma init_leaky : init leaky = s0.
Proof. reflexivity. Qed.

Ltac pc l1 l2 := exists l1, l2; split; reflexivity.

Lemma st01 : step leaky s0 s1.
Proof.
  eapply (step_src_emit leaky s0 0 [1; 2] _ [WHold 0; WIdle; WIdle]);
    [reflexivity | reflexivity | reflexivity | pc (@nil wst) [WIdle; WIdle]].
Qed.

Lemma st12 : step leaky s1 s2.
Proof.
  eapply (step_src_emit leaky s1 1 [2] _ [WHold 0; WHold 1; WIdle]);
    [reflexivity | reflexivity | reflexivity | pc [WHold 0] [WIdle]].
Qed.

Lemma st23 : step leaky s2 s3.
Proof.
  eapply (step_src_emit leaky s2 2 [] _ [WHold 0; WHold 1; WHold 2]);
    [reflexivity | reflexivity | reflexivity | pc [WHold 0; WHold 1] (@nil wst)].
Qed.

Lemma st34 : step leaky s3 s4.
Proof.
  eapply (step_work_fail leaky s3 0 leaky_stage _ 0 [WErr 0; WHold 1; WHold 2]);
    [reflexivity | reflexivity | reflexivity | pc (@nil wst) [WHold 1; WHold 2]].
Qed.

Lemma st45 : step leaky s4 s5.
Proof.
  eapply (step_work_fail leaky s4 0 leaky_stage _ 1 [WErr 0; WErr 1; WHold 2]);
    [reflexivity | reflexivity | reflexivity | pc [WErr 0] [WHold 2]].
Qed.

Lemma st56 : step leaky s5 s6.
Proof.
  eapply (step_work_fail leaky s5 0 leaky_stage _ 2 [WErr 0; WErr 1; WErr 2]);
    [reflexivity | reflexivity | reflexivity | pc [WErr 0; WErr 1] (@nil wst)].
Qed.

Lemma st67 : step leaky s6 s7.
Proof.
  eapply (step_err_send leaky s6 0 leaky_stage _ 0 [WDone; WErr 1; WErr 2]);
    [reflexivity | reflexivity | reflexivity | pc (@nil wst) [WErr 1; WErr 2]].
Qed.

Lemma st78 : step leaky s7 s8.
Proof.
  eapply (step_reader_take leaky s7 0 _ 0); reflexivity.
Qed.

Lemma st89 : step leaky s8 s9.
Proof.
  eapply (step_err_send leaky s8 0 leaky_stage _ 1 [WDone; WDone; WErr 2]);
    [reflexivity | reflexivity | reflexivity | pc [WDone] [WErr 2]].
Qed.

Lemma st910 : step leaky s9 s10.
Proof.
  apply (step_src_close leaky s9); reflexivity.
Qed.

Lemma st1011 : step leaky s10 s11.
Proof.
  apply (step_reader0_closed leaky s10 [RDone (Some e0)]); reflexivity.
Qed.

Lemma st11stuck : step leaky s11 stuck.
Proof.
  apply (step_main_return leaky s11); [reflexivity |].
  intros r Hin. cbn in Hin.
  destruct Hin as [Hr | [Hr | []]]; subst r; discriminate.
Qed.

Lemma reach_stuck : reach leaky stuck.
Proof.
  pose proof (reach_init leaky) as R. rewrite init_leaky in R.
  pose proof (reach_step _ _ _ R st01) as R1.
  pose proof (reach_step _ _ _ R1 st12) as R2.
  pose proof (reach_step _ _ _ R2 st23) as R3.
  pose proof (reach_step _ _ _ R3 st34) as R4.
  pose proof (reach_step _ _ _ R4 st45) as R5.
  pose proof (reach_step _ _ _ R5 st56) as R6.
  pose proof (reach_step _ _ _ R6 st67) as R7.
  pose proof (reach_step _ _ _ R7 st78) as R8.
  pose proof (reach_step _ _ _ R8 st89) as R9.
  pose proof (reach_step _ _ _ R9 st910) as R10.
  pose proof (reach_step _ _ _ R10 st1011) as R11.
  exact (reach_step _ _ _ R11 st11stuck).
Qed.

(* ---- the final state is stuck ---- *)

Definition stuck_stage : sst :=
  {| s_ws := [WDone; WDone; WErr 2]; s_closed := false; s_ebuf := Some 1 |}.

Lemma stuck_stages : st_stages stuck = [stuck_stage].
Proof. reflexivity. Qed.

Lemma nth_single : forall (A : Type) (x t : A) (n : nat),
  nth_error [x] n = Some t -> n = 0 /\ t = x.
Proof.
  intros A x t n H. destruct n as [| n].
  - cbn in H. injection H as H. split; [reflexivity | symmetry; exact H].
  - cbn in H. destruct n; discriminate H.
Qed.

Lemma stuck_stage_nth : forall n t,
  nth_error (st_stages stuck) n = Some t -> n = 0 /\ t = stuck_stage.
Proof. intros n t H. rewrite stuck_stages in H. exact (nth_single _ _ _ _ H). Qed.

Lemma stuck_pool : forall ws' x y,
  pool_change [WDone; WDone; WErr 2] ws' x y -> x = WDone \/ x = WErr 2.
Proof.
  intros ws' x y H. apply pc_in_old in H. cbn in H.
  destruct H as [H | [H | [H | []]]]; subst x; auto.
Qed.

(* no worker of the stuck pool is in state x *)
Ltac no_worker Hn Hpc :=
  apply stuck_stage_nth in Hn; destruct Hn as [_ Hn]; subst;
  cbn in Hpc; apply stuck_pool in Hpc; destruct Hpc as [Hpc | Hpc]; discriminate Hpc.

Lemma stuck_no_wait : forall n, nth_error (st_readers stuck) n <> Some RWait.
Proof.
  intros n H. cbn in H.
  destruct n as [| [| n]]; cbn in H; try discriminate H. destruct n; discriminate H.
Qed.

Lemma stuck_is_stuck : forall s', ~ step leaky stuck s'.
Proof.
  intros s' H.
  inversion H; subst; clear H.
  - (* src_emit *) match goal with Hs : st_src stuck = SRun |- _ => discriminate Hs end.
  - (* src_abort *) match goal with Hs : st_src stuck = SRun |- _ => discriminate Hs end.
  - (* src_close *) match goal with Hs : st_src stuck = SRun |- _ => discriminate Hs end.
  - (* src_err *) match goal with Hs : st_src stuck = SRun |- _ => discriminate Hs end.
  - (* work_ok *)
    match goal with
      Hn : nth_error (st_stages stuck) _ = Some _, Hpc : pool_change _ _ _ _ |- _ =>
      no_worker Hn Hpc end.
  - (* work_fail *)
    match goal with
      Hn : nth_error (st_stages stuck) _ = Some _, Hpc : pool_change _ _ _ _ |- _ =>
      no_worker Hn Hpc end.
  - (* err_send: the buffer is full *)
    match goal with
      Hn : nth_error (st_stages stuck) _ = Some _, Hb : s_ebuf _ = None |- _ =>
      apply stuck_stage_nth in Hn; destruct Hn as [_ Hn]; subst; discriminate Hb end.
  - (* err_drop: the send is not guarded *)
    match goal with
      Hn : nth_error (st_stages stuck) ?n = Some _,
      Hd : nth_error (p_stages leaky) ?n = Some ?d,
      Hm : d_err_send ?d = CtxGuarded |- _ =>
      apply stuck_stage_nth in Hn; destruct Hn as [Hn0 Hn]; subst;
      cbn in Hd; injection Hd as Hd; subst; discriminate Hm end.
  - (* handoff: there is no next stage *)
    match goal with
      Hn : nth_error (st_stages stuck) (S _) = Some _ |- _ =>
      apply stuck_stage_nth in Hn; destruct Hn as [Hn _]; discriminate Hn end.
  - (* handoff_abort *)
    match goal with
      Hn : nth_error (st_stages stuck) _ = Some _, Hpc : pool_change _ _ _ _ |- _ =>
      no_worker Hn Hpc end.
  - (* exit_closed *)
    match goal with
      Hn : nth_error (st_stages stuck) _ = Some _, Hpc : pool_change _ _ _ _ |- _ =>
      no_worker Hn Hpc end.
  - (* exit_ctx *)
    match goal with
      Hn : nth_error (st_stages stuck) _ = Some _, Hpc : pool_change _ _ _ _ |- _ =>
      no_worker Hn Hpc end.
  - (* lock *)
    match goal with
      Hn : nth_error (st_stages stuck) _ = Some _, Hpc : pool_change _ _ _ _ |- _ =>
      no_worker Hn Hpc end.
  - (* write *)
    match goal with
      Hn : nth_error (st_stages stuck) _ = Some _, Hpc : pool_change _ _ _ _ |- _ =>
      no_worker Hn Hpc end.
  - (* unlock *)
    match goal with
      Hn : nth_error (st_stages stuck) _ = Some _, Hpc : pool_change _ _ _ _ |- _ =>
      no_worker Hn Hpc end.
  - (* closer: the third worker has not returned *)
    match goal with
      Hn : nth_error (st_stages stuck) _ = Some _, Ha : all_done _ |- _ =>
      apply stuck_stage_nth in Hn; destruct Hn as [_ Hn]; subst;
      assert (Hw : WErr 2 = WDone)
        by (apply Ha; cbn; right; right; left; reflexivity);
      discriminate Hw end.
  - (* reader_take *)
    match goal with Hr : nth_error (st_readers stuck) _ = Some RWait |- _ =>
      exact (stuck_no_wait _ Hr) end.
  - (* reader_closed *)
    match goal with Hr : nth_error (st_readers stuck) _ = Some RWait |- _ =>
      exact (stuck_no_wait _ Hr) end.
  - (* reader0_closed *)
    match goal with Hr : st_readers stuck = RWait :: _ |- _ => discriminate Hr end.
  - (* reader_ctx *)
    match goal with Hr : nth_error (st_readers stuck) _ = Some RWait |- _ =>
      exact (stuck_no_wait _ Hr) end.
  - (* main_return: it has returned already *)
    match goal with Hm : st_main stuck = None |- _ => discriminate Hm end.
  - (* user_cancel: not in this scenario *)
    match goal with Hu : p_user_may_cancel leaky = true |- _ => discriminate Hu end.
Qed.

Lemma stuck_not_quiescent : ~ quiescent stuck.
Proof.
  intros (_ & Hst & _).
  destruct (Hst stuck_stage) as [Ha _].
  - rewrite stuck_stages. left. reflexivity.
  - assert (Hw : WErr 2 = WDone)
      by (apply Ha; cbn; right; right; left; reflexivity).
    discriminate Hw.
Qed.

(* the leaked goroutine, spelled out: a worker of stage 0 sits in its error send *)
Lemma stuck_has_blocked_sender :
  exists t, nth_error (st_stages stuck) 0 = Some t /\ In (WErr 2) (s_ws t) /\
            s_ebuf t <> None /\ s_closed t = false.
Proof.
  exists stuck_stage. split; [reflexivity |].
  split; [cbn; right; right; left; reflexivity |].
  split; [discriminate | reflexivity].
Qed.

Theorem leak_reachable :
  exists s, reach leaky s /\ st_main s <> None /\ ~ quiescent s /\
            forall s', ~ step leaky s s'.
Proof.
  exists stuck. split; [exact reach_stuck |].
  split; [discriminate |].
  split; [exact stuck_not_quiescent | exact stuck_is_stuck].
Qed.

(* the call itself looked fine to its caller: it returned the first worker's error *)
Lemma leak_returns_first_error : st_main stuck = Some (Some (EStage 0 0)).
Proof. reflexivity. Qed.

(* ------------------------------------------------------------------------- *)
(* 3. the contrast: the repaired send                                         *)
(* ------------------------------------------------------------------------- *)

Lemma guarded_safe : forall p,
  p_src_err_guarded p = true -> p_src_emit_guarded p = true ->
  (forall d, In d (p_stages p) -> d_out_guarded d = true /\ d_in_guarded d = true) ->
  safe_params (guarded p).
Proof.
  intros p He Hm Hd. split; [exact He |]. split; [exact Hm |].
  intros d Hin. cbn [guarded p_stages] in Hin.
  apply in_map_iff in Hin. destruct Hin as (d0 & Heq & Hin0). subst d.
  destruct (Hd d0 Hin0) as [Ho Hi].
  split; [reflexivity |]. split; [exact Ho | exact Hi].
Qed.

Lemma guarded_leaky_safe : safe_params (guarded leaky).
Proof.
  apply guarded_safe; [reflexivity | reflexivity |].
  intros d Hin. cbn in Hin. destruct Hin as [Hd | []]. subst d.
  split; reflexivity.
Qed.

(* guarded leaky differs from leaky in the error send only *)
Lemma guarded_leaky_diff :
  p_items (guarded leaky) = p_items leaky /\
  p_src_err (guarded leaky) = p_src_err leaky /\
  p_user_may_cancel (guarded leaky) = p_user_may_cancel leaky /\
  p_stages (guarded leaky) =
    [ {| d_workers := 3; d_fails := fun _ => true; d_err_send := CtxGuarded;
         d_exits_on_err := true; d_out_guarded := true; d_in_guarded := true;
         d_lock := false; d_lines := fun _ => 0 |} ].
Proof. repeat split. Qed.

Theorem same_scenario_safe : forall s,
  reach (guarded leaky) s -> st_main s <> None ->
  (forall s', ~ step (guarded leaky) s s') -> quiescent s.
Proof.
  intros s Hr Hm Hst.
  exact (stuck_after_return_is_quiescent (guarded leaky) s guarded_leaky_safe Hr Hm Hst).
Qed.

(* the run above stays possible with the repaired send up to the state where the third
   worker faces the full buffer; there the repaired code has the step the defective code
   lacks: the send is dropped because the context is done, the worker returns *)
Lemma repaired_worker_moves :
  exists s', step (guarded leaky) stuck s'.
Proof.
  eexists.
  eapply (step_err_drop (guarded leaky) stuck 0 (guard_stage leaky_stage) _ 2
                        [WDone; WDone; WDone]);
    [reflexivity | reflexivity | reflexivity | reflexivity | pc [WDone; WDone] (@nil wst)].
Qed.

Print Assumptions leak_reachable.
Print Assumptions same_scenario_safe.
