(* Proofs/NoLoss.v — "no silent loss": every item of a well-nested item listing is
   represented by a node of the forest the generator builds.
   (1) a successful generator run implies the listing was nested;
   (2) forest_of_items is a right inverse of forest_items on nested listings;
   (3) name paths survive insertion into the trie;
   (4) the name path of each item, computed from the indentation alone, is the
       name path of the corresponding node of the forest;
   (5) hence every item's path is present in the trie of its root. *)
From Coq Require Import List Ascii Arith Bool Lia.
From GT Require Import Base.GoStr Tree.Tree Tree.Gen Spec.Spec Spec.Spelling
  Proofs.TreeInd Proofs.BuildTrie Proofs.GenItems Proofs.Spelled.
Import ListNotations.

(* ================= (1) a successful run was over a nested listing ================= *)

(* depth of the item the cursor points at; 0 before the first root *)
Definition depth_of (cur : option (tree * list nat)) : nat :=
  match cur with None => 0 | Some (_, c) => S (List.length c) end.

Lemma attach_len pp nm t t' c' :
  attach pp nm t = Some (t', c') -> List.length c' = S (List.length pp).
Proof.
  unfold attach. destruct (get_at pp t) as [par|]; [|discriminate].
  destruct (find_idx nm (tkids par)); intros H; inversion H; subst;
    rewrite app_length; cbn [List.length]; lia.
Qed.

Lemma irun_nested_gen : forall its done cur s,
  Forall (fun it => 1 <= fst it) its ->
  irun (done, cur) its = Some s -> nested_from (depth_of cur) its.
Proof.
  induction its as [|[d n] r IH]; intros done cur s HF H; [exact I|].
  inversion HF as [|? ? Hd HF']; subst. cbn [fst] in Hd.
  cbn [irun] in H. unfold istep in H. cbn [fst snd] in H.
  cbn [nested_from].
  destruct (d =? 1) eqn:E.
  - apply Nat.eqb_eq in E. subst d. split; [lia|]. split; [lia|].
    exact (IH _ _ _ HF' H).
  - apply Nat.eqb_neq in E. destruct cur as [[t c]|]; [|discriminate].
    unfold item_step in H. cbn [fst snd] in H.
    destruct (d - 2 <=? List.length c) eqn:L; [|discriminate]. apply Nat.leb_le in L.
    destruct (attach (firstn (d - 2) c) n t) as [[t' c']|] eqn:A; [|discriminate].
    apply attach_len in A. rewrite firstn_length in A.
    split; [lia|]. split; [cbn [depth_of]; lia|].
    specialize (IH _ _ _ HF' H).
    assert (Hd' : depth_of (Some (t', c')) = d) by (cbn [depth_of]; lia).
    rewrite Hd' in IH. exact IH.
Qed.

(* DEVIATION: without the premise "all depths are >= 1" the statement is false:
   istep treats an item of depth 0 like one of depth 2 (0 - 2 = 0 in nat), so
   irun ([], None) [(1, a); (0, b)] succeeds although the listing is not nested.
   The parser never emits depth 0 (GenItems.parses carries 1 <= d). *)
Theorem irun_nested : forall its s,
  Forall (fun it => 1 <= fst it) its ->
  irun ([], None) its = Some s -> nested its.
Proof. intros its s HF H. exact (irun_nested_gen its [] None s HF H). Qed.

Lemma irun_depth0_not_nested :
  exists its s, irun ([], None) its = Some s /\ ~ nested its.
Proof.
  exists [(1, []); (0, [])]. eexists. split; [reflexivity|].
  unfold nested. cbn [nested_from]. lia.
Qed.

(* ================= (2) forest_of_items inverts forest_items ================= *)

(* length of the rightmost spine = depth (from 1) of the last node in pre-order *)
Fixpoint rspine (t : tree) : nat :=
  match t with T _ ks => S (last (map rspine ks) 0) end.

Definition rspine_acc (acc : list tree) : nat :=
  match acc with [] => 0 | t :: _ => rspine t end.

(* named inner loop of add_at_depth *)
Fixpoint lastk_f (f : tree -> tree) (ks : list tree) : list tree :=
  match ks with
  | [] => []
  | [k] => [f k]
  | k :: r => k :: lastk_f f r
  end.

Lemma add_at_depth_SS d nm t :
  add_at_depth (S (S d)) nm t = T (tname t) (lastk_f (add_at_depth (S d) nm) (tkids t)).
Proof.
  cbn [add_at_depth]. f_equal.
  induction (tkids t) as [|k r IH]; [reflexivity|].
  destruct r as [|k2 r']; [reflexivity|].
  cbn [lastk_f]. f_equal. exact IH.
Qed.

Lemma lastk_f_cons f k l : l <> [] -> lastk_f f (k :: l) = k :: lastk_f f l.
Proof. destruct l; [congruence|reflexivity]. Qed.

Lemma lastk_f_last f l x : lastk_f f (l ++ [x]) = l ++ [f x].
Proof.
  induction l as [|k r IH]; [reflexivity|].
  cbn [app]. rewrite lastk_f_cons by (destruct r; discriminate).
  rewrite IH. reflexivity.
Qed.

Lemma rspine_snoc n l x : rspine (T n (l ++ [x])) = S (rspine x).
Proof. cbn [rspine]. rewrite map_app. cbn [map]. rewrite last_last. reflexivity. Qed.

Lemma rspine_leaf n : rspine (T n []) = 1.
Proof. reflexivity. Qed.

Lemma rspine_ge2_kids t : 2 <= rspine t ->
  exists l x, tkids t = l ++ [x] /\ rspine t = S (rspine x).
Proof.
  destruct t as [n ks]. intros H.
  destruct ks as [|k r]; [cbn in H; lia|].
  assert (Hne : k :: r <> []) by discriminate.
  destruct (exists_last Hne) as [l [x E]]. exists l, x. cbn [tkids]. split; [exact E|].
  rewrite E. apply rspine_snoc.
Qed.

Lemma flat_map_snoc {A B} (f : A -> list B) l x : flat_map f (l ++ [x]) = flat_map f l ++ f x.
Proof. rewrite flat_map_app. cbn [flat_map]. rewrite app_nil_r. reflexivity. Qed.

(* adding at depth k below a tree whose rightmost spine is long enough appends the
   new node to the pre-order listing and makes it the end of the rightmost spine *)
Lemma add_at_depth_spine : forall k t e nm,
  1 <= k -> k <= rspine t ->
  preorder_d e (add_at_depth k nm t) = preorder_d e t ++ [(e + k, nm)] /\
  rspine (add_at_depth k nm t) = S k.
Proof.
  induction k as [|k IH]; intros t e nm H1 H2; [lia|].
  destruct k as [|k'].
  - destruct t as [n ks]. cbn [add_at_depth tname tkids]. split.
    + cbn [preorder_d]. rewrite flat_map_snoc. cbn [preorder_d flat_map app].
      rewrite Nat.add_1_r. reflexivity.
    + rewrite rspine_snoc. reflexivity.
  - rewrite add_at_depth_SS.
    destruct (rspine_ge2_kids t) as [l [x [E R]]]; [lia|].
    rewrite E, lastk_f_last.
    destruct (IH x (S e) nm) as [P S']; [lia|lia|].
    split.
    + destruct t as [n ks]. cbn [tkids] in E. subst ks. cbn [tname preorder_d].
      rewrite !flat_map_snoc, P. cbn [app]. rewrite <- app_assoc.
      replace (S e + S k') with (e + S (S k')) by lia. reflexivity.
    + rewrite rspine_snoc, S'. reflexivity.
Qed.

Lemma forest_items_app a b : forest_items (a ++ b) = forest_items a ++ forest_items b.
Proof. unfold forest_items. apply flat_map_app. Qed.

Lemma forest_of_items_gen : forall its acc,
  nested_from (rspine_acc acc) its ->
  forest_items (forest_of_items its acc) = forest_items (rev acc) ++ its.
Proof.
  induction its as [|[d nm] r IH]; intros acc H.
  - cbn [forest_of_items]. rewrite frev_rev, app_nil_r. reflexivity.
  - cbn [nested_from] in H. destruct H as [H1 [H2 H3]].
    cbn [forest_of_items].
    destruct (d <=? 1) eqn:E.
    + apply Nat.leb_le in E. assert (d = 1) by lia. subst d.
      rewrite IH by exact H3.
      cbn [rev]. rewrite forest_items_app, <- app_assoc. reflexivity.
    + apply Nat.leb_gt in E.
      destruct acc as [|t acc']; [cbn [rspine_acc] in H2; lia|].
      cbn [rspine_acc] in H2.
      destruct (add_at_depth_spine (d - 1) t 1 nm) as [P S']; [lia|lia|].
      rewrite IH.
      * cbn [rev]. rewrite !forest_items_app, <- !app_assoc. f_equal.
        unfold forest_items. cbn [flat_map]. rewrite !app_nil_r, P, <- app_assoc.
        replace (1 + (d - 1)) with d by lia. reflexivity.
      * cbn [rspine_acc]. rewrite S'. replace (S (d - 1)) with d by lia. exact H3.
Qed.

Theorem forest_of_items_inverse : forall its,
  nested its -> forest_items (forest_of_items its []) = its.
Proof. intros its H. exact (forest_of_items_gen its [] H). Qed.

(* ================= (3) name paths survive insertion ================= *)

Definition has_path (p : list str) (t : tree) : Prop := exists c, pos_of_path p t = Some c.

Lemma has_path_nil t : has_path [] t.
Proof. exists []. reflexivity. Qed.

Lemma has_path_cons n p t i k :
  find_idx n (tkids t) = Some i -> nth_error (tkids t) i = Some k -> has_path p k ->
  has_path (n :: p) t.
Proof.
  intros F N [c H]. exists (i :: c). cbn [pos_of_path]. rewrite F, N, H. reflexivity.
Qed.

Lemma has_path_cons_inv n p t :
  has_path (n :: p) t ->
  exists i k, find_idx n (tkids t) = Some i /\ nth_error (tkids t) i = Some k /\ has_path p k.
Proof.
  intros [c H]. cbn [pos_of_path] in H.
  destruct (find_idx n (tkids t)) as [i|] eqn:F; [|discriminate].
  destruct (nth_error (tkids t) i) as [k|] eqn:N; [|discriminate].
  destruct (pos_of_path p k) as [c'|] eqn:P; [|discriminate].
  exists i, k. split; [reflexivity|]. split; [exact N|]. exists c'. exact P.
Qed.

Lemma ins_has_path : forall p t, has_path p (ins p t).
Proof.
  induction p as [|n p IH]; intros t; [apply has_path_nil|].
  rewrite ins_cons. destruct (find_idx n (tkids t)) as [i|] eqn:F.
  - rewrite (ins_kids_found _ _ _ _ F).
    destruct (find_idx_some _ _ _ F) as [k [N _]].
    apply (has_path_cons n p _ i (ins p k)); cbn [tkids].
    + rewrite find_idx_upd by (intros; apply tname_ins). exact F.
    + apply nth_error_upd_nth. exact N.
    + apply IH.
  - rewrite (ins_kids_missing _ _ _ F).
    apply (has_path_cons n p _ (List.length (tkids t)) (ins p (T n []))); cbn [tkids].
    + apply find_idx_app_new; [exact F|apply tname_ins].
    + rewrite nth_error_app2 by lia. rewrite Nat.sub_diag. reflexivity.
    + apply IH.
Qed.

Lemma nth_error_upd_nth_neq {A} (l : list A) i j f :
  i <> j -> nth_error (upd_nth j f l) i = nth_error l i.
Proof.
  revert i j. induction l as [|y r IH]; intros [|i] [|j] H; cbn [upd_nth nth_error]; try reflexivity.
  - lia.
  - apply IH. lia.
Qed.

Lemma find_idx_app_some nm ks x i :
  find_idx nm ks = Some i -> find_idx nm (ks ++ x) = Some i.
Proof.
  revert i. induction ks as [|k r IH]; intros i H; cbn [find_idx app] in *; [discriminate|].
  destruct (str_eqb nm (tname k)); [exact H|].
  destruct (find_idx nm r) as [j|]; [|discriminate].
  rewrite (IH j eq_refl). exact H.
Qed.

Lemma ins_keeps_path : forall p q t, has_path q t -> has_path q (ins p t).
Proof.
  intros p q. revert p. induction q as [|m q IH]; intros p t H; [apply has_path_nil|].
  destruct p as [|n p]; [exact H|].
  apply has_path_cons_inv in H as [i [k [F [N Hk]]]].
  rewrite ins_cons. destruct (find_idx n (tkids t)) as [j|] eqn:Fn.
  - rewrite (ins_kids_found _ _ _ _ Fn).
    destruct (Nat.eq_dec i j) as [E|E].
    + subst j. apply (has_path_cons m q _ i (ins p k)); cbn [tkids].
      * rewrite find_idx_upd by (intros; apply tname_ins). exact F.
      * apply nth_error_upd_nth. exact N.
      * apply IH. exact Hk.
    + apply (has_path_cons m q _ i k); cbn [tkids].
      * rewrite find_idx_upd by (intros; apply tname_ins). exact F.
      * rewrite nth_error_upd_nth_neq by exact E. exact N.
      * exact Hk.
  - rewrite (ins_kids_missing _ _ _ Fn).
    apply (has_path_cons m q _ i k); cbn [tkids].
    + apply find_idx_app_some. exact F.
    + rewrite nth_error_app1; [exact N|]. apply nth_error_Some. congruence.
    + exact Hk.
Qed.

Lemma fold_ins_has_path : forall ps t p,
  In p ps \/ has_path p t -> has_path p (fold_left (fun acc p => ins p acc) ps t).
Proof.
  induction ps as [|p0 ps IH]; intros t p H; cbn [fold_left].
  - destruct H as [[]|H]. exact H.
  - apply IH. destruct H as [[H|H]|H].
    + subst p0. right. apply ins_has_path.
    + left. exact H.
    + right. apply ins_keeps_path. exact H.
Qed.

Theorem trie_has_paths : forall t p, In p (paths t) -> has_path p (trie_of t).
Proof. intros t p H. unfold trie_of. apply fold_ins_has_path. left. exact H. Qed.

Lemma tname_fold_ins : forall ps t, tname (fold_left (fun acc p => ins p acc) ps t) = tname t.
Proof.
  induction ps as [|p ps IH]; intros t; cbn [fold_left]; [reflexivity|].
  rewrite IH. apply tname_ins.
Qed.

Theorem tname_trie_of : forall t, tname (trie_of t) = tname t.
Proof. intros t. unfold trie_of. rewrite tname_fold_ins. reflexivity. Qed.

(* ================= (4) item paths from indentation alone ================= *)

Fixpoint item_paths_from (cur : list str) (its : list (nat * str)) : list (list str) :=
  match its with
  | [] => []
  | (d, n) :: r => let p := firstn (d - 1) cur ++ [n] in p :: item_paths_from p r
  end.

(* the path of the last item *)
Fixpoint end_cur (cur : list str) (its : list (nat * str)) : list str :=
  match its with
  | [] => cur
  | (d, n) :: r => end_cur (firstn (d - 1) cur ++ [n]) r
  end.

Lemma item_paths_app : forall a cur b,
  item_paths_from cur (a ++ b) = item_paths_from cur a ++ item_paths_from (end_cur cur a) b.
Proof.
  induction a as [|[d n] a IH]; intros cur b; [reflexivity|].
  cbn [app item_paths_from end_cur]. rewrite IH. reflexivity.
Qed.

Lemma end_cur_app : forall a cur b, end_cur cur (a ++ b) = end_cur (end_cur cur a) b.
Proof.
  induction a as [|[d n] a IH]; intros cur b; [reflexivity|].
  cbn [app end_cur]. apply IH.
Qed.

Lemma item_paths_subtree : forall t d anc cur,
  List.length anc = d - 1 -> 1 <= d -> firstn (d - 1) cur = anc ->
  item_paths_from cur (preorder_d d t) = map (app anc) (PS t) /\
  firstn d (end_cur cur (preorder_d d t)) = anc ++ [tname t].
Proof.
  induction t as [n ks IH] using tree_ind'; intros d anc cur Hlen Hd Hcur.
  cbn [preorder_d item_paths_from end_cur tname]. rewrite Hcur, PS_eq.
  set (q := anc ++ [n]).
  assert (Hq : List.length q = d) by (unfold q; rewrite app_length; cbn [List.length]; lia).
  assert (Hloop : forall l, Forall (fun t => forall d anc cur,
        List.length anc = d - 1 -> 1 <= d -> firstn (d - 1) cur = anc ->
        item_paths_from cur (preorder_d d t) = map (app anc) (PS t) /\
        firstn d (end_cur cur (preorder_d d t)) = anc ++ [tname t]) l ->
      forall cur0, firstn d cur0 = q ->
        item_paths_from cur0 (flat_map (preorder_d (S d)) l) = map (app q) (flat_map PS l) /\
        firstn d (end_cur cur0 (flat_map (preorder_d (S d)) l)) = q).
  { induction l as [|k r IHr]; intros HF cur0 H0.
    - cbn [flat_map item_paths_from end_cur map]. auto.
    - pose proof (Forall_inv HF) as Hk. pose proof (Forall_inv_tail HF) as Hr. cbn beta in Hk.
      cbn [flat_map]. rewrite item_paths_app, end_cur_app, map_app.
      destruct (Hk (S d) q cur0) as [P1 P2]; [lia|lia|cbn [Nat.sub]; rewrite Nat.sub_0_r; exact H0|].
      assert (P2' : firstn d (end_cur cur0 (preorder_d (S d) k)) = q).
      { rewrite <- Hq. apply (prefix_shrink q (tname k)). rewrite Hq, Nat.add_1_r. exact P2. }
      destruct (IHr Hr _ P2') as [P3 P4].
      rewrite P1, P3. auto. }
  destruct (Hloop ks IH q) as [P1 P2].
  { rewrite <- Hq. apply firstn_all. }
  split; [|exact P2].
  cbn [map]. f_equal. rewrite P1, map_map. apply map_ext.
  intros a. unfold q. rewrite <- app_assoc. reflexivity.
Qed.

Lemma item_paths_forest_gen : forall f cur,
  item_paths_from cur (forest_items f) = flat_map PS f.
Proof.
  unfold forest_items. induction f as [|t f IH]; intros cur; [reflexivity|].
  cbn [flat_map]. rewrite item_paths_app, IH.
  destruct (item_paths_subtree t 1 [] cur eq_refl (le_n 1) eq_refl) as [P _].
  rewrite P. f_equal. rewrite <- (map_id (PS t)) at 2. apply map_ext. reflexivity.
Qed.

Theorem item_paths_forest : forall f,
  item_paths_from [] (forest_items f) =
  flat_map (fun t => [tname t] :: map (cons (tname t)) (paths t)) f.
Proof. intros f. exact (item_paths_forest_gen f []). Qed.

(* ================= (5) no silent loss ================= *)

Theorem no_loss : forall its, nested its ->
  forall p, In p (item_paths_from [] its) ->
  exists r rest t, p = r :: rest /\ In t (map trie_of (forest_of_items its [])) /\
                   tname t = r /\ has_path rest t.
Proof.
  intros its Hn p Hp.
  rewrite <- (forest_of_items_inverse its Hn) in Hp.
  rewrite item_paths_forest in Hp.
  apply in_flat_map in Hp as [t0 [Ht0 Hp]].
  assert (Hin : In (trie_of t0) (map trie_of (forest_of_items its []))) by (apply in_map; exact Ht0).
  destruct Hp as [Hp|Hp].
  - exists (tname t0), [], (trie_of t0). split; [symmetry; exact Hp|].
    split; [exact Hin|]. split; [apply tname_trie_of|apply has_path_nil].
  - apply in_map_iff in Hp as [q [Hq Hq']].
    exists (tname t0), q, (trie_of t0). split; [symmetry; exact Hq|].
    split; [exact Hin|]. split; [apply tname_trie_of|apply trie_has_paths; exact Hq'].
Qed.

(* the forest in no_loss is what the generator holds after a run over the listing *)
Corollary irun_builds : forall its, nested its -> its <> [] ->
  let f := forest_of_items its [] in
  exists c, irun ([], None) its =
            Some (rev (map trie_of (removelast f)), Some (trie_of (last f (T [] [])), c)).
Proof.
  intros its Hn Hne f.
  assert (Hf : f <> []).
  { intro E. apply Hne. rewrite <- (forest_of_items_inverse its Hn). fold f. rewrite E. reflexivity. }
  destruct (irun_forest f [] None Hf) as [c H]. exists c.
  unfold f in H at 1. rewrite (forest_of_items_inverse its Hn) in H.
  rewrite app_nil_r in H. exact H.
Qed.

Print Assumptions irun_nested.
Print Assumptions forest_of_items_inverse.
Print Assumptions ins_has_path.
Print Assumptions ins_keeps_path.
Print Assumptions trie_has_paths.
Print Assumptions tname_trie_of.
Print Assumptions item_paths_forest.
Print Assumptions no_loss.
Print Assumptions irun_builds.
